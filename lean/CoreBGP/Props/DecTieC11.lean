import CoreBGP.Props.DecTie
/-! Decision ties of C11 (see `Props.DecTie` for the method). -/
namespace CoreBGP.Props.DecTieC11
open CoreBGP CoreBGP.Model CoreBGP.Gen CoreBGP.Lemmas.DecTie CoreBGP.Props.DecTie

/-! the generated table, evaluated (a changed decision of these functions is reported here) -/
private theorem d_en0 : decision "peer.enableFSM" "if" 0 = .and (.cmp "==" "i" "out") (.atom "p.options.passive") := by decide
private theorem d_en1 : decision "peer.enableFSM" "if" 1 = .cmp "==" "p.fsms[i]" "nil" := by decide
private theorem d_dis0 : decision "peer.disableFSM" "if" 0 = .cmp "==" "p.fsms[i]" "nil" := by decide

/-! ## C11: `enableFSM` / `disableFSM` guards -/

def slotEnv (s : PState) (i : Dir) : Env :=
  envOf (stateConsts ++ [("i", dirI i), ("p.options.passive", b2i s.passive), ("p.fsms[i]", b2i (s.present i))])

/-- Go `enableFSM`: `if i == out && passive { return }; if p.fsms[i] == nil { create and start }` -/
theorem enable_out_unless_passive (s : PState) (i : Dir) (w : Bool) (rest : List Instr) :
    let ρ := slotEnv s i
    let skip := BExp.eval ρ (decision "peer.enableFSM" "if" 0) || !BExp.eval ρ (decision "peer.enableFSM" "if" 1)
    (skip = true → pInstr s (.enable i w) rest = [(.tau, { s with todo := rest })]) ∧
    (skip = false → ∃ s', pInstr s (.enable i w) rest = [(.tau, s')] ∧ s'.present i = true) := by
  intro ρ skip
  have se_i : slotEnv s i "i" = dirI i := rfl
  have se_out : slotEnv s i "out" = 0 := rfl
  have se_nil : slotEnv s i "nil" = 0 := rfl
  have se_passive : slotEnv s i "p.options.passive" = b2i s.passive := rfl
  have se_slot : slotEnv s i "p.fsms[i]" = b2i (s.present i) := rfl
  have hskip : skip = (decide (i = .out) && s.passive || s.present i) := by
    simp only [skip, ρ, d_en0, d_en1, eval_and, eval_eq, eval_atom, se_i, se_out, se_nil, se_passive, se_slot,
      b2i_ne_zero, b2i_eq_zero, dirI_out, Bool.not_not]
  rw [hskip]
  constructor
  · intro h
    have hc : (i = .out ∧ s.passive = true) ∨ s.present i = true := by simpa using h
    simp only [pInstr, if_pos hc]
  · intro h
    have hc : ¬ ((i = .out ∧ s.passive = true) ∨ s.present i = true) := by
      intro hc
      have : (decide (i = .out) && s.passive || s.present i) = true := by simpa using hc
      rw [h] at this; exact Bool.false_ne_true this
    simp only [pInstr, if_neg hc]
    exact ⟨_, rfl, by rw [present_setF, present_setSt, present_setPresent]⟩

/-- Go `disableFSM`: `if p.fsms[i] == nil { return }` -/
theorem disable_absent_is_noop (s : PState) (i : Dir) (rest : List Instr) :
    BExp.eval (slotEnv s i) (decision "peer.disableFSM" "if" 0) = true →
    pInstr s (.disableLog i) rest = [(.tau, { s with todo := rest })] := by
  have se_nil : slotEnv s i "nil" = 0 := rfl
  have se_slot : slotEnv s i "p.fsms[i]" = b2i (s.present i) := rfl
  simp only [d_dis0, eval_eq, se_nil, se_slot, b2i_eq_zero]
  intro h
  simp only [pInstr, if_pos h]

end CoreBGP.Props.DecTieC11
