import CoreBGP.Model.Server
import CoreBGP.Spec.Server
/-!
# C20 — the peer registry behaves as a consistent map and rejects unusable configurations

Refinement of the L3 registry model to the abstract partial map `Spec.Registry`, for every
operation sequence (induction over the sequence), plus the run-state invariants. Concurrency:
every operation runs under `s.mu` in the code (Gen.Access / trusted base), so concurrent use is
some sequential order of these steps; the harness checks that on the implementation.
-/
namespace CoreBGP.Props.C20
open CoreBGP CoreBGP.Model

/-- abstraction map -/
def abs (s : Server) : Spec.Registry := fun k => s.lookup k

/-- representation invariant: keys are unique and each entry is filed under its own remote address -/
def Inv (s : Server) : Prop :=
  (s.peers.map (·.1)).Nodup ∧ (∀ p ∈ s.peers, p.1 = p.2.remote) ∧
  (s.serving = true → s.running = s.peers.map (·.1)) ∧ (s.serving = false → s.running = [])

/-- `AddPeer` validates exactly as the property says: remote address valid, local address unset or
of the same family, both AS ≠ 0, hold ∉ (0, 3 s), port in 1..65535 -/
theorem validate_iff (c : PeerCfg) :
    (validateOptions c && validateConfig c) = true ↔ Spec.validConfig c := by
  obtain ⟨⟨rk, rid⟩, las, ras, ⟨lk, lid⟩, hold, port, passive⟩ := c
  simp only [validateOptions, validateConfig, Spec.validConfig, Addr.isValid, Addr.is4, Addr.is6]
  cases rk <;> cases lk <;> simp <;> omega

/-- `NewServer` accepts exactly IPv4 router ids -/
theorem new_server_iff (a : Addr) : newServerOK a = true ↔ a.kind = .v4 := by
  simp [newServerOK, Addr.is4]

theorem lookup_append_new (ps : List (Addr × PeerCfg)) (k : Addr) (c : PeerCfg) (x : Addr) :
    ((ps ++ [(k, c)]).find? (·.1 = x)).map (·.2) =
      if (ps.find? (·.1 = x)).isSome then (ps.find? (·.1 = x)).map (·.2) else if x = k then some c else none := by
  induction ps with
  | nil => by_cases h : k = x <;> simp [List.find?, h, eq_comm]
  | cons p ps ih =>
    by_cases hp : p.1 = x
    · simp [List.find?, hp]
    · simp [List.find?, hp, ih]

/-- `AddPeer` returns what the abstract map operation returns and commutes with `abs`; a rejected
call leaves the state unchanged -/
theorem add_refines (s : Server) (c : PeerCfg) :
    let (s', e) := s.addPeer c
    let (r', res) := (abs s).add c
    abs s' = r' ∧
    (res = .ok ↔ e = none) ∧ (res = .alreadyExists ↔ e = some .alreadyExists) ∧
    (res = .invalid ↔ (e = some .invalidOptions ∨ e = some .invalidConfig)) ∧
    (e ≠ none → s' = s) := by
  have hv := validate_iff c
  simp only [Server.addPeer, Spec.Registry.add]
  by_cases ho : validateOptions c = true
  · by_cases hc : validateConfig c = true
    · have hvalid : Spec.validConfig c := hv.1 (by simp [ho, hc])
      by_cases hex : (s.lookup c.remote).isSome = true
      · simp [ho, hc, hvalid, hex, abs]
      · simp only [ho, hc, hvalid, hex, abs]
        simp only [Bool.not_true, Bool.false_eq_true, ↓reduceIte, not_true_eq_false, not_false_eq_true]
        refine ⟨?_, by simp, by simp, by simp, by simp⟩
        funext x
        simp only [Server.lookup, Spec.Registry.insert]
        rw [lookup_append_new]
        by_cases hx : x = c.remote
        · subst hx
          simp only [Server.lookup] at hex
          simp [hex]
        · simp only [hx, ↓reduceIte]
          cases h : (s.peers.find? (·.1 = x)) <;> simp
    · have hinv : ¬ Spec.validConfig c := fun h => by
        have := hv.2 h; simp [ho, hc] at this
      simp [ho, hc, hinv, abs]
  · have hinv : ¬ Spec.validConfig c := fun h => by
      have := hv.2 h; simp [ho] at this
    simp [ho, hinv, abs]

theorem find_filter_ne (ps : List (Addr × PeerCfg)) (k x : Addr) :
    (ps.filter (·.1 ≠ k)).find? (·.1 = x) = if x = k then none else ps.find? (·.1 = x) := by
  induction ps with
  | nil => simp
  | cons p ps ih =>
    by_cases hpk : p.1 = k
    · by_cases hx : x = k
      · simp [List.filter, hpk, ih, hx]
      · have : ¬ p.1 = x := fun h => hx (h ▸ hpk)
        simp [List.filter, hpk, ih, hx, List.find?, this]
    · by_cases hpx : p.1 = x
      · have : ¬ x = k := fun h => hpk (hpx ▸ h)
        simp [List.filter, hpk, List.find?, hpx, this]
      · simp [List.filter, hpk, List.find?, hpx, ih]

/-- `DeletePeer` refines the abstract delete -/
theorem delete_refines (s : Server) (k : Addr) :
    let (s', e) := s.deletePeer k
    let (r', ok) := (abs s).delete k
    abs s' = r' ∧ (ok = true ↔ e = none) ∧ (ok = false ↔ e = some .notExist) := by
  simp only [Server.deletePeer, Spec.Registry.delete, abs]
  cases h : s.lookup k with
  | none => simp [h]
  | some c =>
    simp only [h, Option.isSome_some, ↓reduceIte, true_and]
    refine ⟨?_, by simp, by simp⟩
    funext x
    simp only [Server.lookup, Spec.Registry.erase, find_filter_ne]
    by_cases hx : x = k <;> simp [hx]

/-- `GetPeer` returns exactly what the map holds -/
theorem get_refines (s : Server) (k : Addr) :
    s.getPeer k = (match abs s k with | some c => .ok c | none => .error .notExist) := by
  simp only [Server.getPeer, abs]; cases s.lookup k <;> rfl

/-- `ListPeers` returns exactly the present configurations: `c` is listed iff the map holds it
under its remote address (given the representation invariant) -/
theorem list_refines (s : Server) (h : Inv s) (c : PeerCfg) :
    c ∈ s.listPeers ↔ abs s c.remote = some c := by
  obtain ⟨hnd, hkey, _, _⟩ := h
  simp only [Server.listPeers, abs, Server.lookup, List.mem_map]
  constructor
  · rintro ⟨p, hp, rfl⟩
    have hk := hkey p hp
    induction s.peers with
    | nil => simp at hp
    | cons q qs ih =>
      simp only [List.map_cons, List.nodup_cons, List.mem_map, not_exists, not_and] at hnd
      rcases List.mem_cons.1 hp with rfl | hq
      · simp [List.find?, hk]
      · have hne : ¬ q.1 = p.2.remote := fun h => hnd.1 p hq (by rw [h, hk])
        simp only [List.find?, hne, decide_false]
        exact ih hnd.2 (fun p hp => hkey p (List.mem_cons_of_mem _ hp)) hq
  · intro h
    cases hf : s.peers.find? (·.1 = c.remote) with
    | none => simp [hf] at h
    | some p =>
      simp only [hf, Option.map_some, Option.some.injEq] at h
      exact ⟨p, List.mem_of_find?_eq_some hf, h⟩

/-! ## every reachable state -/

inductive Op where
  | add (c : PeerCfg) | del (k : Addr) | serve | close

def step (s : Server) : Op → Server
  | .add c => (s.addPeer c).1
  | .del k => (s.deletePeer k).1
  | .serve => s.serveStart.1
  | .close => s.close

theorem inv_init : Inv {} := by simp [Inv]

theorem mem_filter_keys (ps : List (Addr × PeerCfg)) (k : Addr) :
    (ps.filter (·.1 ≠ k)).map (·.1) = (ps.map (·.1)).filter (· ≠ k) := by
  induction ps with
  | nil => rfl
  | cons p ps ih => by_cases h : p.1 = k <;> simp [List.filter, h, ih]

theorem inv_step (s : Server) (op : Op) (h : Inv s) : Inv (step s op) := by
  obtain ⟨hnd, hkey, hs, hns⟩ := h
  cases op with
  | add c =>
    simp only [step, Server.addPeer]
    split
    · exact ⟨hnd, hkey, hs, hns⟩
    · split
      · exact ⟨hnd, hkey, hs, hns⟩
      · split
        · exact ⟨hnd, hkey, hs, hns⟩
        · rename_i hex
          have hnot : c.remote ∉ s.peers.map (·.1) := by
            intro hm
            apply hex
            simp only [Server.lookup, Option.isSome_map]
            obtain ⟨p, hp, hpk⟩ := List.mem_map.1 hm
            exact List.find?_isSome.2 ⟨p, hp, by simp [hpk]⟩
          refine ⟨?_, ?_, ?_, ?_⟩
          · simp only [List.map_append, List.map_cons, List.map_nil]
            exact List.nodup_append.2 ⟨hnd, by simp, by
              intro a ha b hb; simp at hb; subst hb; exact fun h => hnot (h ▸ ha)⟩
          · intro p hp
            rcases List.mem_append.1 hp with hp | hp
            · exact hkey p hp
            · simp at hp; subst hp; rfl
          · intro hserv; simp [hserv, hs hserv]
          · intro hserv; simp [hserv, hns hserv]
  | del k =>
    simp only [step, Server.deletePeer]
    split
    · exact ⟨hnd, hkey, hs, hns⟩
    · refine ⟨?_, ?_, ?_, ?_⟩
      · rw [mem_filter_keys]; exact hnd.filter _
      · intro p hp; exact hkey p (List.mem_filter.1 hp).1
      · intro hserv; simp only at hserv; simp [hs hserv, mem_filter_keys]
      · intro hserv; simp only at hserv; simp [hns hserv]
  | serve =>
    simp only [step, Server.serveStart]
    split
    · exact ⟨hnd, hkey, hs, hns⟩
    · exact ⟨hnd, hkey, fun _ => rfl, fun h => by simp at h⟩
  | close =>
    simp only [step, Server.close, Server.serveEnd]
    split
    · exact ⟨hnd, hkey, fun h => by simp at h, fun _ => rfl⟩
    · rename_i hserv
      exact ⟨hnd, hkey, fun h => by simp at h; exact absurd h hserv, fun _ => hns (by simpa using hserv)⟩

/-- the representation invariant — and with it "a present peer is running iff the server is
serving" — holds in every reachable state, for every operation sequence, before, during and after
`Serve` -/
theorem inv_reachable (ops : List Op) : Inv (ops.foldl step {}) := by
  suffices ∀ s, Inv s → Inv (ops.foldl step s) from this _ inv_init
  induction ops with
  | nil => exact fun s h => h
  | cons op ops ih => exact fun s h => ih _ (inv_step s op h)

/-- a peer added while serving starts operating; peers added before `Serve` start when `Serve` is
called; a deleted peer is stopped: in every reachable state the running peers are exactly the
present ones if serving, none otherwise -/
theorem started_iff_serving (ops : List Op) (k : Addr) :
    let s := ops.foldl step {}
    k ∈ s.running ↔ (s.serving = true ∧ (abs s k).isSome) := by
  intro s
  obtain ⟨_, _, hs, hns⟩ := inv_reachable ops
  by_cases hserv : s.serving = true
  · rw [hs hserv]
    simp only [hserv, true_and, abs, Server.lookup, Option.isSome_map, List.mem_map]
    constructor
    · rintro ⟨p, hp, rfl⟩; exact List.find?_isSome.2 ⟨p, hp, by simp⟩
    · intro h
      obtain ⟨p, hp, hpk⟩ := List.find?_isSome.1 h
      exact ⟨p, hp, by simpa using hpk⟩
  · have : s.serving = false := by simpa using hserv
    rw [hns this]; simp [this]

/-- `closed` is never reset -/
theorem closed_stable (ops : List Op) (s : Server) (h : s.closed = true) : (ops.foldl step s).closed = true := by
  induction ops generalizing s with
  | nil => exact h
  | cons op ops ih =>
    apply ih
    cases op <;> simp only [step, Server.addPeer, Server.deletePeer, Server.serveStart, Server.close, Server.serveEnd]
    · split <;> [exact h; (split <;> [exact h; (split <;> exact h)])]
    · split <;> exact h
    · split <;> exact h
    · split <;> rfl

/-- `Serve` after `Close` returns `ErrServerClosed`, whatever happens in between -/
theorem serve_after_close (ops₁ ops₂ : List Op) :
    ((ops₂.foldl step ((ops₁.foldl step {}).close)).serveStart).2 = some .serverClosed := by
  have h : (ops₂.foldl step ((ops₁.foldl step {}).close)).closed = true := by
    apply closed_stable
    simp only [Server.close, Server.serveEnd]; split <;> rfl
  simp [Server.serveStart, h]

-- non-vacuity: a reachable state with two peers, serving
example : (([Op.add { remote := ⟨.v4, 1⟩, localAS := 1, remoteAS := 2 }, .serve,
            .add { remote := ⟨.v6, 2⟩, localAS := 1, remoteAS := 2 }].foldl step {}).running.length = 2) := by decide

end CoreBGP.Props.C20
