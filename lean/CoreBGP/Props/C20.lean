import CoreBGP.Model.Server
import CoreBGP.Spec.Server
import CoreBGP.Lemmas.Server
/-!
# C20 — the peer registry behaves as a consistent map and rejects unusable configurations

Refinement of the L3 registry model to the abstract partial map `Spec.Registry`, for every
operation sequence (induction over the sequence), plus the run-state invariants. Concurrency:
every operation runs under `s.mu` in the code (Gen.Access / trusted base), so concurrent use is
some sequential order of these steps; the harness checks that on the implementation.
-/
namespace CoreBGP.Props.C20
open CoreBGP CoreBGP.Model
open CoreBGP.Lemmas.Server

/-- abstraction map -/
def abs (s : Server) : Spec.Registry := fun k => s.lookup k

/-- representation invariant: keys are unique and each entry is filed under its own remote address -/
def Inv (s : Server) : Prop :=
  (s.peers.map (·.1)).Nodup ∧ (∀ p ∈ s.peers, p.1 = p.2.remote) ∧
  (s.serving = true → s.running = s.peers.map (·.1)) ∧ (s.serving = false → s.running = [])

/-- `AddPeer` validates exactly as the property says: remote address valid, local address unset or
of the same family, both AS ≠ 0, hold ∉ (0, 3 s), port in 1..65535 -/
theorem validate_iff (c : PeerCfg) :
    (validateOptions c && validateConfig c) = true ↔ Spec.validConfig c :=
  Lemmas.Server.validate_exact c

/-- `NewServer` accepts exactly IPv4 router ids -/
theorem new_server_iff (a : Addr) : newServerOK a = true ↔ a.kind = .v4 := by
  simp [newServerOK, Addr.is4]

/-- `AddPeer` returns what the abstract map operation returns and commutes with `abs`; a rejected
call leaves the state unchanged -/
theorem add_refines (s : Server) (c : PeerCfg) :
    let (s', e) := s.addPeer c
    let (r', res) := (abs s).add c
    abs s' = r' ∧
    (res = .ok ↔ e = none) ∧ (res = .alreadyExists ↔ e = some .alreadyExists) ∧
    (res = .invalid ↔ (e = some .invalidOptions ∨ e = some .invalidConfig)) ∧
    (e ≠ none → s' = s) := by
  have hv := validate_iff c
  cases ho : validateOptions c with
  | false =>
    have hinv : ¬ Spec.validConfig c := fun h => by have := hv.2 h; simp [ho] at this
    rw [addPeer_invalidOptions s c ho]
    simp [Spec.Registry.add, hinv]
  | true =>
    cases hc : validateConfig c with
    | false =>
      have hinv : ¬ Spec.validConfig c := fun h => by have := hv.2 h; simp [ho, hc] at this
      rw [addPeer_invalidConfig s c ho hc]
      simp [Spec.Registry.add, hinv]
    | true =>
      have hvalid : Spec.validConfig c := hv.1 (by simp [ho, hc])
      cases hex : (s.lookup c.remote).isSome with
      | true =>
        rw [addPeer_exists s c ho hc hex]
        simp [Spec.Registry.add, hvalid, abs, hex]
      | false =>
        rw [addPeer_ok s c ho hc hex]
        simp only [Spec.Registry.add, hvalid, abs, hex]
        refine ⟨?_, by simp, by simp, by simp, by simp⟩
        funext x
        simp only [not_true_eq_false, Bool.false_eq_true, ↓reduceIte, Spec.Registry.insert]
        exact lookup_insert_new s _ c rfl hex x

/-- `DeletePeer` refines the abstract delete -/
theorem delete_refines (s : Server) (k : Addr) :
    let (s', e) := s.deletePeer k
    let (r', ok) := (abs s).delete k
    abs s' = r' ∧ (ok = true ↔ e = none) ∧ (ok = false ↔ e = some .notExist) := by
  cases h : s.lookup k with
  | none =>
    rw [deletePeer_none s k h]
    simp [Spec.Registry.delete, abs, h]
  | some c =>
    rw [deletePeer_some s k c h]
    simp only [Spec.Registry.delete, abs, h]
    refine ⟨?_, by simp, by simp⟩
    funext x
    simp only [Option.isSome_some, ↓reduceIte, Spec.Registry.erase]
    exact lookup_filter_ne s _ k rfl x

/-- `GetPeer` returns exactly what the map holds -/
theorem get_refines (s : Server) (k : Addr) :
    s.getPeer k = (match abs s k with | some c => .ok c | none => .error .notExist) := by
  simp only [Server.getPeer, abs]; cases s.lookup k <;> rfl

/-- `ListPeers` returns exactly the present configurations: `c` is listed iff the map holds it
under its remote address (given the representation invariant) -/
theorem list_refines (s : Server) (h : Inv s) (c : PeerCfg) :
    c ∈ s.listPeers ↔ abs s c.remote = some c := by
  obtain ⟨hnd, hkey, _, _⟩ := h
  simp only [Server.listPeers, abs, Server.lookup, List.mem_map]
  constructor
  · rintro ⟨p, hp, rfl⟩
    rw [← hkey p hp, find_of_mem_nodup s.peers hnd p hp]
    rfl
  · intro h
    cases hf : s.peers.find? (·.1 = c.remote) with
    | none => simp [hf] at h
    | some p =>
      simp only [hf, Option.map_some, Option.some.injEq] at h
      exact ⟨p, List.mem_of_find?_eq_some hf, h⟩

/-! ## every reachable state -/

inductive Op where
  | add (c : PeerCfg) | del (k : Addr) | serve | close

def step (s : Server) : Op → Server
  | .add c => (s.addPeer c).1
  | .del k => (s.deletePeer k).1
  | .serve => s.serveStart.1
  | .close => s.close

theorem inv_init : Inv {} := by simp [Inv]

theorem inv_add (s : Server) (c : PeerCfg) (h : Inv s) : Inv (s.addPeer c).1 := by
  cases ho : validateOptions c with
  | false => rw [addPeer_invalidOptions s c ho]; exact h
  | true =>
    cases hc : validateConfig c with
    | false => rw [addPeer_invalidConfig s c ho hc]; exact h
    | true =>
      cases hex : (s.lookup c.remote).isSome with
      | true => rw [addPeer_exists s c ho hc hex]; exact h
      | false =>
        rw [addPeer_ok s c ho hc hex]
        obtain ⟨hnd, hkey, hs, hns⟩ := h
        have hnot : c.remote ∉ s.peers.map (·.1) := by
          intro hm
          have := (find_isSome_iff s.peers c.remote).2 hm
          simp only [Server.lookup, Option.isSome_map] at hex
          rw [hex] at this
          exact Bool.false_ne_true this
        refine ⟨?_, ?_, ?_, ?_⟩
        · show ((s.peers ++ [(c.remote, c)]).map (·.1)).Nodup
          rw [List.map_append, List.nodup_append]
          refine ⟨hnd, by simp, ?_⟩
          intro a ha b hb
          simp only [List.map_cons, List.map_nil, List.mem_singleton] at hb
          subst hb
          exact fun h => hnot (h ▸ ha)
        · intro p hp
          rcases List.mem_append.1 hp with hp | hp
          · exact hkey p hp
          · rw [List.mem_singleton] at hp; subst hp; rfl
        · intro hserv
          have hserv : s.serving = true := hserv
          show (if s.serving = true then s.running ++ [c.remote] else s.running) =
            (s.peers ++ [(c.remote, c)]).map (·.1)
          rw [if_pos hserv, hs hserv, List.map_append]; rfl
        · intro hserv
          have hserv : s.serving = false := hserv
          show (if s.serving = true then s.running ++ [c.remote] else s.running) = []
          rw [hserv, hns hserv]; rfl

theorem inv_del (s : Server) (k : Addr) (h : Inv s) : Inv (s.deletePeer k).1 := by
  cases hl : s.lookup k with
  | none => rw [deletePeer_none s k hl]; exact h
  | some c =>
    rw [deletePeer_some s k c hl]
    obtain ⟨hnd, hkey, hs, hns⟩ := h
    refine ⟨?_, ?_, ?_, ?_⟩
    · show ((s.peers.filter (·.1 ≠ k)).map (·.1)).Nodup
      rw [map_fst_filter_ne]; exact hnd.filter _
    · intro p hp; exact hkey p (List.mem_filter.1 hp).1
    · intro hserv
      have hserv : s.serving = true := hserv
      show s.running.filter (· ≠ k) = (s.peers.filter (·.1 ≠ k)).map (·.1)
      rw [map_fst_filter_ne, hs hserv]
    · intro hserv
      have hserv : s.serving = false := hserv
      show s.running.filter (· ≠ k) = []
      rw [hns hserv]; rfl

theorem inv_serve (s : Server) (h : Inv s) : Inv s.serveStart.1 := by
  unfold Server.serveStart
  split
  · exact h
  · obtain ⟨hnd, hkey, _, _⟩ := h
    exact ⟨hnd, hkey, fun _ => rfl, fun h => Bool.noConfusion h⟩

theorem inv_close (s : Server) (h : Inv s) : Inv s.close := by
  obtain ⟨hnd, hkey, hs, hns⟩ := h
  cases hserv : s.serving with
  | true =>
    have : s.close = { s with closed := true, serving := false, running := [], doneServing := true } := by
      simp [Server.close, Server.serveEnd, hserv]
    rw [this]
    exact ⟨hnd, hkey, fun h => Bool.noConfusion h, fun _ => rfl⟩
  | false =>
    have : s.close = { s with closed := true } := by
      simp [Server.close, hserv]
    rw [this]
    exact ⟨hnd, hkey, fun h => hs h, fun h => hns h⟩

theorem inv_step (s : Server) (op : Op) (h : Inv s) : Inv (step s op) := by
  cases op with
  | add c => exact inv_add s c h
  | del k => exact inv_del s k h
  | serve => exact inv_serve s h
  | close => exact inv_close s h

/-- the representation invariant — and with it "a present peer is running iff the server is
serving" — holds in every reachable state, for every operation sequence, before, during and after
`Serve` -/
theorem inv_reachable (ops : List Op) : Inv (ops.foldl step {}) := by
  suffices ∀ s, Inv s → Inv (ops.foldl step s) from this _ inv_init
  induction ops with
  | nil => exact fun s h => h
  | cons op ops ih => exact fun s h => ih _ (inv_step s op h)

theorem running_iff (s : Server) (h : Inv s) (k : Addr) :
    k ∈ s.running ↔ (s.serving = true ∧ (abs s k).isSome) := by
  obtain ⟨_, _, hs, hns⟩ := h
  cases hserv : s.serving with
  | true =>
    rw [hs hserv, ← find_isSome_iff]
    simp [abs, Server.lookup]
  | false =>
    rw [hns hserv]; simp

/-- a peer added while serving starts operating; peers added before `Serve` start when `Serve` is
called; a deleted peer is stopped: in every reachable state the running peers are exactly the
present ones if serving, none otherwise -/
theorem started_iff_serving (ops : List Op) (k : Addr) :
    let s := ops.foldl step {}
    k ∈ s.running ↔ (s.serving = true ∧ (abs s k).isSome) :=
  running_iff _ (inv_reachable ops) k

theorem closed_step (s : Server) (op : Op) (h : s.closed = true) : (step s op).closed = true := by
  cases op with
  | add c =>
    show (s.addPeer c).1.closed = true
    unfold Server.addPeer
    split
    · exact h
    · split
      · exact h
      · split <;> exact h
  | del k =>
    show (s.deletePeer k).1.closed = true
    unfold Server.deletePeer
    split <;> exact h
  | serve =>
    show s.serveStart.1.closed = true
    unfold Server.serveStart
    split <;> exact h
  | close =>
    show s.close.closed = true
    unfold Server.close Server.serveEnd
    dsimp only
    split <;> rfl

/-- `closed` is never reset -/
theorem closed_stable (ops : List Op) (s : Server) (h : s.closed = true) : (ops.foldl step s).closed = true := by
  induction ops generalizing s with
  | nil => exact h
  | cons op ops ih => exact ih _ (closed_step s op h)

theorem close_closed (s : Server) : s.close.closed = true := by
  unfold Server.close Server.serveEnd
  dsimp only
  split <;> rfl

/-- `Serve` after `Close` returns `ErrServerClosed`, whatever happens in between -/
theorem serve_after_close (ops₁ ops₂ : List Op) :
    ((ops₂.foldl step ((ops₁.foldl step {}).close)).serveStart).2 = some .serverClosed := by
  have h : (ops₂.foldl step ((ops₁.foldl step {}).close)).closed = true :=
    closed_stable _ _ (close_closed _)
  simp [Server.serveStart, h]

-- non-vacuity: a reachable state with two peers, serving
example : (([Op.add { remote := ⟨.v4, 1⟩, localAS := 1, remoteAS := 2 }, .serve,
            .add { remote := ⟨.v6, 2⟩, localAS := 1, remoteAS := 2 }].foldl step {}).running.length = 2) := by decide

end CoreBGP.Props.C20
