import CoreBGP.Props.PathTie
/-! Path tie of C06 (see `Props.PathTie` for the method): the statements about the regenerated control paths of
`fsm.go` in the scope `c06`. -/
set_option linter.unusedSimpArgs false
namespace CoreBGP.Props.PathTieC06
open CoreBGP CoreBGP.Model CoreBGP.Gen CoreBGP.Props.PathTie

/-- the code side, for every class of the scope: some path is selected and every selected path has the shape -/
theorem code_follows_shape : ∀ pc ∈ classesOf .c06, shapeOK pc.1 pc.2 = true := by decide

/-- the L1 model does what the code's paths do, for every input whose class is in this scope -/
theorem react_follows_code (cfg : SessCfg) (ph : Phase) (inp : Input) (ret : Option Notif) (c : ICls)
    (hph : ph ∈ phases) (hc : clsOf cfg ph inp ret = some c) (hs : scopeOfCls ph c = .c06) :
    selected (fnName ph) (envOfCls c) ≠ [] ∧
    ∀ p ∈ selected (fnName ph) (envOfCls c),
      pathVis (envOfCls c) p = actsVis (react cfg ph inp ret).2 ∧
      pathExit (wrappedOf c) p = actsExit (react cfg ph inp ret).2 :=
  follows_of_shapeOK .c06 code_follows_shape cfg ph inp ret c hph hc hs

/-- every path of the code in this scope is a path of the model -/
theorem every_path_modelled : scopeComplete .c06 = true := by decide

/-- nothing outside the known vocabulary is called on a path of this scope -/
theorem calls_known : scopeCallsKnown .c06 = true := by decide

/-- the scope is not empty -/
example : (classesOf .c06).length > 0 := by decide

/-- the write-failure paths end the connection like a transport fault: closed (and `OnClose` from Established),
Idle, a wrapped non-NOTIFICATION error -/
theorem write_failure_paths :
    ∀ ph ∈ phases, ∀ p ∈ pathsOf (fnName ph), writeFailed p = true →
      pathExit .io p = .ret .idle .io ∧
      (pathVis (fun _ => none) p).filter (· != .onOpen) =
        [.sendKA, .close] ++ (if ph == .established then [.onClose] else []) := by
  decide

/-! ## the timers -/

/-- `WriteUpdate` and the keepalive timer (`tstep .writeUpdate`): the keepalive manager is told to restart the timer only on
a path on which the UPDATE was written successfully, nothing is deferred to the return, and a call that is refused or whose
write fails leaves the timer alone -/
theorem write_update_restarts_after_write :
    (∀ p ∈ pathsOf "WriteUpdate", p.guards.contains ("select send u.resetKATimerCh", true) = true →
      p.guards.contains ("u.conn.Write()==nil", true) = true ∧
      p.calls.getLast? = some "u.conn.Write(prependHeader(b,updateMessageType))") ∧
    (∀ p ∈ pathsOf "WriteUpdate", p.calls.all (fun c => c == "verifPoint" || c == "u.conn.Write(prependHeader(b,updateMessageType))") = true) ∧
    (pathsOf "WriteUpdate").any (fun p => p.guards.contains ("select send u.resetKATimerCh", true)) = true := by
  decide

/-- entering OpenSent (`tInit`): the hold timer is created with `longHoldTime` on the one path that reaches OpenSent -/
theorem open_sent_timer_path :
    ∀ p ∈ pathsOf "sendOpenAndSetHoldTimer", p.ret = ["openSentState"] →
      (p.calls.filter fun c => c == "set f.holdTimer=time.NewTimer(longHoldTime)").length = 1 ∧
      (tInit 0 0).holdDl = some (0 + Gen.longHoldTime) := by
  decide


/-- what a step does to the timers, by timer class -/
def clsTEffs (c : TCls) : List TEff :=
  match c.k, c.ph with
  | .openAccepted, _ =>
    [.holdFromOpen] ++ (if c.localLess then [.holdFromConfig] else []) ++
      (if c.holdNZ then [.kaIntThird, .armKA, .stopHold, .armHold] else [.stopHold, .kaIntZero, .armKALong, .stopKA])
  | .kaFire, .openConfirm => [.armKA]
  | .kaFire, _ => if c.holdNZ then [.armKA] else []
  | _, _ => if c.holdNZ then [.stopHold, .armHold] else []

def bools : List Bool := [false, true]

def timerClasses : List TCls :=
  (bools.flatMap fun nz => bools.map fun ll => ({ ph := .openSent, k := .openAccepted, holdNZ := nz, localLess := ll } : TCls)) ++
  (bools.flatMap fun nz => [({ ph := .openConfirm, k := .keepalive, holdNZ := nz, localLess := false } : TCls),
    { ph := .established, k := .keepalive, holdNZ := nz, localLess := false },
    { ph := .established, k := .update, holdNZ := nz, localLess := false },
    { ph := .openConfirm, k := .kaFire, holdNZ := nz, localLess := false },
    { ph := .established, k := .kaFire, holdNZ := nz, localLess := false }])

/-- the code side: for every timer class some path is selected, and every selected path does to the timers what the
table says, in that order -/
theorem code_timer_effects :
    ∀ c ∈ timerClasses, (selected (fnName c.ph) (envOfTCls c)).isEmpty = false ∧
      (selected (fnName c.ph) (envOfTCls c)).all (fun p => pathTEffs (envOfTCls c) p == clsTEffs c) = true := by
  decide

/-- the timer class of a step of the timed model -/
def tclsOf (s : TSess) : TEv → Option TCls
  | .openAccepted remoteHold =>
    some { ph := s.phase, k := .openAccepted, localLess := decide (s.localHold < remoteHold),
           holdNZ := (if s.localHold < remoteHold then s.localHold else remoteHold) != 0 }
  | .keepalive => some { ph := s.phase, k := .keepalive, holdNZ := s.hold != 0, localLess := false }
  | .update => some { ph := s.phase, k := .update, holdNZ := s.hold != 0, localLess := false }
  | .kaFire => some { ph := s.phase, k := .kaFire, holdNZ := s.hold != 0, localLess := false }
  | _ => none

def remoteHoldOf : TEv → Nat
  | .openAccepted r => r
  | _ => 0

/-- the model side: a step of the timed model (`tstep`) changes hold time, keepalive interval and the two deadlines
exactly as the effects of its class do, applied in order (`hka`: with hold time 0 there is no keepalive timer —
part of the invariant `C06.Inv` of every reachable state) -/
theorem tstep_effects (s s' : TSess) (ev : TEv) (o : TOut) (c : TCls)
    (hc : tclsOf s ev = some c) (h : tstep s ev = some (s', o)) (hka : s.hold = 0 → s.kaDl = none) :
    c ∈ timerClasses ∧
    (clsTEffs c).foldl (applyTEff s.now (remoteHoldOf ev) s.localHold) (tiOf s) = tiOf s' := by
  cases ev with
  | tick dt => simp [tclsOf] at hc
  | holdFire => simp [tclsOf] at hc
  | writeUpdate => simp [tclsOf] at hc
  | openAccepted r =>
    simp only [tclsOf, Option.some.injEq] at hc; subst hc
    by_cases hph : s.phase = .openSent
    · by_cases hl : s.localHold < r
      · by_cases hz : s.localHold = 0
        · have hr : 0 < r := by omega
          simp [tstep, hph, hz] at h
          obtain ⟨rfl, _⟩ := h
          simp [hph, hz, hr, clsTEffs, timerClasses, bools, applyTEff, tiOf, kaInterval, remoteHoldOf]
        · simp [tstep, hph, hl, hz] at h
          obtain ⟨rfl, _⟩ := h
          simp [hph, hl, hz, clsTEffs, timerClasses, bools, applyTEff, tiOf, kaInterval, remoteHoldOf]
      · by_cases hz : r = 0
        · simp [tstep, hph, hl, hz] at h
          obtain ⟨rfl, _⟩ := h
          simp [hph, hl, hz, clsTEffs, timerClasses, bools, applyTEff, tiOf, kaInterval, remoteHoldOf]
        · simp [tstep, hph, hl, hz] at h
          obtain ⟨rfl, _⟩ := h
          simp [hph, hl, hz, clsTEffs, timerClasses, bools, applyTEff, tiOf, kaInterval, remoteHoldOf]
    · simp [tstep, hph] at h
  | keepalive =>
    simp only [tclsOf, Option.some.injEq] at hc; subst hc
    cases hph : s.phase <;> simp [tstep, hph] at h <;>
      (obtain ⟨rfl, _⟩ := h
       by_cases hz : s.hold = 0 <;>
         simp [hph, hz, clsTEffs, timerClasses, bools, applyTEff, tiOf, kaInterval, remoteHoldOf])
  | update =>
    simp only [tclsOf, Option.some.injEq] at hc; subst hc
    by_cases hph : s.phase = .established
    · simp [tstep, hph] at h
      obtain ⟨rfl, _⟩ := h
      by_cases hz : s.hold = 0 <;>
        simp [hph, hz, clsTEffs, timerClasses, bools, applyTEff, tiOf, kaInterval, remoteHoldOf]
    · simp [tstep, hph] at h
  | kaFire =>
    simp only [tclsOf, Option.some.injEq] at hc; subst hc
    cases hph : s.phase <;> simp [tstep, hph] at h <;>
      (obtain ⟨hf, rfl, _⟩ := h
       by_cases hz : s.hold = 0
       · have := hka hz; simp [fired, this] at hf
       · simp [hph, hz, clsTEffs, timerClasses, bools, applyTEff, tiOf, kaInterval, remoteHoldOf])

/-- **the timed model re-arms and stops the timers where the code does**: for every step of the timed model that takes
a message from the reader or serves the keepalive timer, every control path of the state function selected for the
class of the step, read as timer operations (hold time assigned from the OPEN / from the configuration, keepalive
interval, timers armed and stopped — `drainAndResetHoldTimer` and the keepalive manager goroutine through their own
regenerated paths), turns the timers of the state before the step into the timers of the state after it -/
theorem timers_follow_code (s s' : TSess) (ev : TEv) (o : TOut) (c : TCls)
    (hc : tclsOf s ev = some c) (h : tstep s ev = some (s', o)) (hka : s.hold = 0 → s.kaDl = none) :
    selected (fnName c.ph) (envOfTCls c) ≠ [] ∧
    ∀ p ∈ selected (fnName c.ph) (envOfTCls c),
      (pathTEffs (envOfTCls c) p).foldl (applyTEff s.now (remoteHoldOf ev) s.localHold) (tiOf s) = tiOf s' := by
  obtain ⟨hmem, heff⟩ := tstep_effects s s' ev o c hc h hka
  obtain ⟨hne, hall⟩ := code_timer_effects c hmem
  refine ⟨by intro h0; rw [h0] at hne; simp at hne, ?_⟩
  intro p hp
  have := List.all_eq_true.mp hall p hp
  rw [beq_iff_eq] at this
  rw [this]; exact heff

end CoreBGP.Props.PathTieC06
