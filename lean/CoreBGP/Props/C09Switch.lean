import CoreBGP.Model.Session
import CoreBGP.Gen.MessageSwitches
/-!
# C09 — which message kinds each state treats in a case of its own (tie to the type switches of fsm.go)

`Gen.messageSwitches` (regenerated on every run) lists the cases of the type switch over received messages in
`openSent`, `openConfirm` and `established`. The theorems say that the session model `react` gives a message kind
its own treatment in a state exactly if the code's switch has a case for it, and that every other kind gets the
FSM-error answer of RFC 6608 (the `default` case), with the subcode of that state.
-/
namespace CoreBGP.Props.C09Switch
open CoreBGP CoreBGP.Model

def kindName : RMsg → String
  | .open_ _ => "*openMessage" | .update _ => "updateMessage" | .notif _ => "*Notification" | .keepalive => "*keepAliveMessage"

def casesOf (fn : String) : List String := ((Gen.messageSwitches.find? (·.1 = fn)).map (·.2)).getD []

def ownCase (fn : String) (m : RMsg) : Bool := (casesOf fn).contains (kindName m)

/-- the answer of the `default` case in a state: FSM Error with that state's subcode, session torn down -/
def defaultAnswer (est : Bool) (sub : UInt8) (m : RMsg) : Phase × List Act :=
  let n := fsmErr sub m
  (.closed, teardown est (some n) .idle (some (.sent n.code)))

/-- every switch has a `default` case -/
theorem has_default : ∀ fn ∈ ["openSent", "openConfirm", "established"], (casesOf fn).contains "default" = true := by decide

/-- OpenSent: a kind without a case of its own in the code gets the default answer in the model … -/
theorem openSent_default (cfg : SessCfg) (m : RMsg) (ret : Option Notif) (h : ownCase "openSent" m = false) :
    react cfg .openSent (.msg m) ret = defaultAnswer false Gen.NOTIF_SUBCODE_RX_UNEXPECTED_MESSAGE_OPENSENT m := by
  cases m with
  | open_ o => (simp [ownCase, casesOf, kindName, Gen.messageSwitches] at h)
  | notif n => (simp [ownCase, casesOf, kindName, Gen.messageSwitches] at h)
  | update b => rfl
  | keepalive => rfl

/-- … and a kind with a case of its own does not (it is an OPEN or a NOTIFICATION) -/
theorem openSent_own (m : RMsg) : ownCase "openSent" m = true ↔ (∃ o, m = .open_ o) ∨ (∃ n, m = .notif n) := by
  cases m <;> simp [ownCase, casesOf, kindName, Gen.messageSwitches] <;> decide

theorem openConfirm_default (cfg : SessCfg) (m : RMsg) (ret : Option Notif) (h : ownCase "openConfirm" m = false) :
    react cfg .openConfirm (.msg m) ret = defaultAnswer false Gen.NOTIF_SUBCODE_RX_UNEXPECTED_MESSAGE_OPENCONFIRM m := by
  cases m with
  | open_ o => rfl
  | notif n => (simp [ownCase, casesOf, kindName, Gen.messageSwitches] at h)
  | update b => rfl
  | keepalive => (simp [ownCase, casesOf, kindName, Gen.messageSwitches] at h)

theorem openConfirm_own (m : RMsg) : ownCase "openConfirm" m = true ↔ m = .keepalive ∨ (∃ n, m = .notif n) := by
  cases m <;> simp [ownCase, casesOf, kindName, Gen.messageSwitches] <;> decide

theorem established_default (cfg : SessCfg) (m : RMsg) (ret : Option Notif) (h : ownCase "established" m = false) :
    react cfg .established (.msg m) ret = defaultAnswer true Gen.NOTIF_SUBCODE_RX_UNEXPECTED_MESSAGE_ESTABLISHED m := by
  cases m with
  | open_ o => rfl
  | notif n => (simp [ownCase, casesOf, kindName, Gen.messageSwitches] at h)
  | update b => (simp [ownCase, casesOf, kindName, Gen.messageSwitches] at h)
  | keepalive => (simp [ownCase, casesOf, kindName, Gen.messageSwitches] at h)

theorem established_own (m : RMsg) :
    ownCase "established" m = true ↔ m = .keepalive ∨ (∃ n, m = .notif n) ∨ (∃ b, m = .update b) := by
  cases m <;> simp [ownCase, casesOf, kindName, Gen.messageSwitches] <;> decide

end CoreBGP.Props.C09Switch
