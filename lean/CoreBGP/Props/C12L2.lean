import CoreBGP.Model.Peer
import CoreBGP.Lemmas.Peer
import CoreBGP.Lemmas.PeerLocal
/-!
# C12 (L2 half) — the hold-down: both connections dropped, no dial, inbound refused, until the timer fires
-/
namespace CoreBGP.Props.C12L2
open CoreBGP CoreBGP.Model CoreBGP.Lemmas
open CoreBGP.Lemmas.PeerLocal

/-- an error handed to the manager changes the damping state iff its class is `damp` (a NOTIFICATION
sent or received with a code other than Cease): both FSMs are then stopped before the hold-down
starts; Cease and I/O errors leave everything as it is -/
theorem error_classes (s : PState) (i : Dir) (st dd : St) (k : EK) (h : (s.f i).pc = .errSend st dd k)
    (hm : s.todo = []) (hnd : s.pdone = false) :
    ∃ s', (Label.tau, s') ∈ pMain s ∧
      s'.todo = .logErr i :: (if k = .damp then [.disableLog .inn, .disableLog .out, .damp] else []) ∧
      s'.holdDown = s.holdDown ∧ s'.timerArmed = s.timerArmed := by
  have _ := hm  -- (not needed: `pMain` is stated directly)
  refine ⟨_, fsm_mem_pMain hnd i (by rw [h]; exact List.mem_singleton.2 rfl), ?_, ?_, ?_⟩
  · rfl
  · simp
  · simp

/-- while the peer is held down both FSM slots are empty — in every reachable state -/
theorem holddown_slots_empty (d p : Bool) (s : PState) (h : PReach d p s) (hh : s.holdDown = true) :
    s.presentO = false ∧ s.presentI = false ∧ s.fo.pc = .absent ∧ s.fi.pc = .absent := by
  have hi := pinv_reachable h
  obtain ⟨hpo, hpi, -⟩ := hi.hold hh
  exact ⟨hpo, hpi, hi.fo_ok.empty hpo, hi.fi_ok.empty hpi⟩

/-- … hence no outbound attempt is made and no session callback runs while it is held down -/
theorem holddown_no_dial (d p : Bool) (s : PState) (h : PReach d p s) (hh : s.holdDown = true) :
    ∀ l s', (l, s') ∈ next s → l ≠ .dial ∧ (∀ i, l ≠ .onEstablished i) := by
  have hi := pinv_reachable h
  obtain ⟨hpo, hpi, -⟩ := hi.hold hh
  intro l s' hm
  have := no_fsm_label (hi.fo_ok.empty hpo) (hi.fi_ok.empty hpi) hm
  refine ⟨?_, ?_⟩
  · rintro rfl
    simp [fsmOnly] at this
  · rintro i rfl
    simp [fsmOnly] at this

/-- … and an inbound connection is refused (closed without an FSM, no effect on the state) -/
theorem holddown_refuses_inbound (s : PState) (hh : s.holdDown = true) (a : Bool) (s' : PState)
    (h : (Label.inConn a, s') ∈ pMain s) : a = false ∧ s' = s := by
  have h := mem_pMain_inConn h
  rw [if_pos (by simp [hh])] at h
  rw [List.mem_singleton] at h
  obtain ⟨ha, rfl⟩ := Prod.mk.inj h
  exact ⟨by injection ha, rfl⟩

/-- hold-down flag ⇔ back-off timer armed (until the peer is stopped) -/
theorem holddown_iff_timer (d p : Bool) (s : PState) (h : PReach d p s) (hnd : s.pdone = false) :
    s.holdDown = s.timerArmed := by
  exact (pinv_reachable h).timer hnd

/-- when the timer fires the flag is cleared and the outbound FSM is re-created: the peer is retried -/
theorem timer_ends_holddown (s : PState) (ht : s.timerArmed = true) (hm : s.todo = []) (hnd : s.pdone = false) :
    (Label.logUndamp, { s with todo := [.enable .out false], holdDown := false, timerArmed := false }) ∈ next s := by
  unfold next
  rw [hm]
  apply List.mem_append_left
  apply List.mem_append_left
  apply List.mem_append_left
  apply List.mem_append_left
  exact timer_mem_pMain hnd ht

end CoreBGP.Props.C12L2
