import CoreBGP.Props.C01
import CoreBGP.Props.C02
import CoreBGP.Props.C02b
import CoreBGP.Props.C03
import CoreBGP.Props.C04
import CoreBGP.Props.C04L2
import CoreBGP.Props.C04Tie
import CoreBGP.Props.C05
import CoreBGP.Props.C06
import CoreBGP.Props.C07
import CoreBGP.Props.C08
import CoreBGP.Props.C09
import CoreBGP.Props.C10
import CoreBGP.Props.C10Own
import CoreBGP.Props.C11
import CoreBGP.Props.C11T
import CoreBGP.Props.C12
import CoreBGP.Props.C12L2
import CoreBGP.Props.C13
import CoreBGP.Props.C14
import CoreBGP.Props.C15
import CoreBGP.Props.C16
import CoreBGP.Props.C17
import CoreBGP.Props.C18
import CoreBGP.Props.C19
import CoreBGP.Props.C20
/-! All property modules that are complete (no `sorry`): importing them together checks that their
helper lemmas do not clash. -/
