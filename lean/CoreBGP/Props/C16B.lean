import CoreBGP.Model.Bitmap
/-!
# C16 (bitmap clause) — `attrsBitmap` is a set of `uint8`

So "second and later occurrences of an attribute type are not passed on" really is about the type
code: no two distinct codes share a bit, and a bit once set stays set.
-/
namespace CoreBGP.Props.C16B
open CoreBGP CoreBGP.Model

theorem empty_isSet (c : UInt8) : Bitmap.empty.isSet c = false := by
  sorry

/-- setting `b` makes exactly `b` a member and changes nothing else -/
theorem isSet_set (a : Bitmap) (b c : UInt8) : (a.set b).isSet c = (b == c || a.isSet c) := by
  sorry

/-- hence after any sequence of `set`s the bitmap answers exactly list membership: the abstraction
`PAState.seen : List UInt8` used by `Model.pathAttrsLoop` is faithful -/
theorem isSet_foldl (l : List UInt8) (c : UInt8) : (l.foldl Bitmap.set Bitmap.empty).isSet c = l.contains c := by
  sorry

example : ((Bitmap.empty.set 32).set 14).isSet 32 = true ∧ ((Bitmap.empty.set 32).set 14).isSet 0 = false := by decide

end CoreBGP.Props.C16B
