import CoreBGP.Model.Bitmap
import CoreBGP.Lemmas.Bitmap
/-!
# C16 (bitmap clause) — `attrsBitmap` is a set of `uint8`

So "second and later occurrences of an attribute type are not passed on" really is about the type
code: no two distinct codes share a bit, and a bit once set stays set.
-/
namespace CoreBGP.Props.C16B
open CoreBGP CoreBGP.Model CoreBGP.Lemmas.Bitmap

theorem empty_isSet (c : UInt8) : Bitmap.empty.isSet c = false := by
  simp [Bitmap.isSet, Bitmap.empty]

/-- setting `b` makes exactly `b` a member and changes nothing else -/
theorem isSet_set (a : Bitmap) (b c : UInt8) : (a.set b).isSet c = (b == c || a.isSet c) := by
  unfold Bitmap.isSet Bitmap.set
  simp only
  by_cases hw : wordIdx c = wordIdx b
  · rw [if_pos hw, and_mask, and_mask, or_mask_testBit]
    congr 1
    by_cases hbc : b = c
    · subst hbc; simp
    · have : b.toNat % 32 ≠ c.toNat % 32 := fun h => hbc (eq_of_wordIdx_mod b c hw.symm h)
      simp [this, hbc]
  · rw [if_neg hw]
    have : b ≠ c := fun h => hw (by rw [h])
    simp [this]

/-- generalisation of `isSet_foldl` to an arbitrary starting bitmap -/
theorem isSet_foldl_gen (l : List UInt8) (a : Bitmap) (c : UInt8) :
    (l.foldl Bitmap.set a).isSet c = (l.contains c || a.isSet c) := by
  induction l generalizing a with
  | nil => simp
  | cons x xs ih =>
    rw [List.foldl_cons, ih, isSet_set, List.contains_cons]
    rw [BEq.comm (a := c) (b := x)]
    cases xs.contains c <;> cases a.isSet c <;> cases (x == c) <;> rfl

/-- hence after any sequence of `set`s the bitmap answers exactly list membership: the abstraction
`PAState.seen : List UInt8` used by `Model.pathAttrsLoop` is faithful -/
theorem isSet_foldl (l : List UInt8) (c : UInt8) : (l.foldl Bitmap.set Bitmap.empty).isSet c = l.contains c := by
  rw [isSet_foldl_gen, empty_isSet, Bool.or_false]

example : ((Bitmap.empty.set 32).set 14).isSet 32 = true ∧ ((Bitmap.empty.set 32).set 14).isSet 0 = false := by decide

end CoreBGP.Props.C16B
