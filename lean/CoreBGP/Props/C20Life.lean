import CoreBGP.Model.Lifecycle
import CoreBGP.Gen.Selects
/-!
# C20 / C10 — the server's life cycle under concurrent API use, for every interleaving

Over `LReach` (any number of `AddPeer`, `DeletePeer`, `Close` calls and one `Serve`, interleaved arbitrarily,
including the windows between `Serve`'s and `Close`'s steps).
-/
namespace CoreBGP.Props.C20Life
open CoreBGP.Model.Lifecycle

/-- the invariant: a peer is running iff it is registered with a serving server; `serving` is true exactly between
`Serve`'s two critical sections; `doneServingCh` is closed exactly once the tear-down has run -/
def Inv (s : LState) : Prop :=
  (∀ p ∈ s.peers, p.2 = s.serving) ∧
  (s.serving = true ↔ (s.serve = .blocked ∨ s.serve = .closing)) ∧
  (s.doneServing = true → s.serve = .returned) ∧
  (s.closers ≠ [] → s.closeSignalled = true) ∧
  (∀ c ∈ s.closers, c = .waiting → (s.serving = true ∨ s.doneServing = true)) ∧
  (∀ c ∈ s.closers, c = .returned → s.serving = false) ∧
  ((s.peers.map (·.1)).Nodup)

private theorem inv_init : Inv {} := by
  simp [Inv]

private theorem inv_add (s s' : LState) (k : Nat) (hinv : Inv s) (hstep : lstep s (.add k) = some s') : Inv s' := by
  simp only [lstep] at hstep
  split at hstep
  · cases hstep; exact hinv
  · rename_i hk
    cases hstep
    obtain ⟨h1, h2, h3, h4, h5, h6, h7⟩ := hinv
    refine ⟨?_, h2, h3, h4, h5, h6, ?_⟩
    · intro p hp
      rcases List.mem_append.mp hp with hp | hp
      · exact h1 p hp
      · simp only [List.mem_singleton] at hp; subst hp; rfl
    · have hk' : hasKey s k = false := by simpa using hk
      simp only [hasKey, List.any_eq_false, beq_iff_eq] at hk'
      show ((s.peers ++ [(k, s.serving)]).map (·.1)).Nodup
      rw [List.map_append, List.nodup_append]
      refine ⟨h7, by simp, ?_⟩
      intro a ha b hb
      simp only [List.map_cons, List.map_nil, List.mem_singleton] at hb
      subst hb
      rcases List.mem_map.mp ha with ⟨q, hq, rfl⟩
      exact hk' q hq

private theorem inv_del (s s' : LState) (k : Nat) (hinv : Inv s) (hstep : lstep s (.del k) = some s') : Inv s' := by
  simp only [lstep] at hstep
  split at hstep
  · cases hstep
    obtain ⟨h1, h2, h3, h4, h5, h6, h7⟩ := hinv
    refine ⟨?_, h2, h3, h4, h5, h6, ?_⟩
    · intro p hp
      exact h1 p (List.mem_filter.mp hp).1
    · exact List.Nodup.sublist (List.Sublist.map _ List.filter_sublist) h7
  · cases hstep; exact hinv

private theorem inv_closeCall (s s' : LState) (hinv : Inv s) (hstep : lstep s .closeCall = some s') : Inv s' := by
  simp only [lstep] at hstep
  obtain ⟨h1, h2, h3, h4, h5, h6, h7⟩ := hinv
  split at hstep
  · rename_i hsv
    cases hstep
    refine ⟨h1, h2, h3, fun _ => rfl, ?_, ?_, h7⟩
    · intro c hc hw
      rcases List.mem_append.mp hc with hc | hc
      · exact h5 c hc hw
      · exact Or.inl hsv
    · intro c hc hr
      rcases List.mem_append.mp hc with hc | hc
      · exact h6 c hc hr
      · simp only [List.mem_singleton] at hc; subst hc; cases hr
  · rename_i hsv
    cases hstep
    refine ⟨h1, h2, h3, fun _ => rfl, ?_, ?_, h7⟩
    · intro c hc hw
      rcases List.mem_append.mp hc with hc | hc
      · exact h5 c hc hw
      · simp only [List.mem_singleton] at hc; subst hc; cases hw
    · intro c hc hr
      rcases List.mem_append.mp hc with hc | hc
      · exact h6 c hc hr
      · simpa using hsv

private theorem inv_closeReturn (s s' : LState) (i : Nat) (hinv : Inv s) (hstep : lstep s (.closeReturn i) = some s') :
    Inv s' := by
  simp only [lstep] at hstep
  obtain ⟨h1, h2, h3, h4, h5, h6, h7⟩ := hinv
  split at hstep
  · rename_i hc
    cases hstep
    simp only [Bool.and_eq_true, beq_iff_eq] at hc
    obtain ⟨hd, hci⟩ := hc
    have hsf : s.serving = false := by
      have hr := h3 hd
      cases hsv : s.serving with
      | false => rfl
      | true => rcases h2.mp hsv with hb | hb <;> rw [hr] at hb <;> cases hb
    refine ⟨h1, h2, h3, ?_, ?_, ?_, h7⟩
    · intro hne
      apply h4
      intro hnil
      apply hne
      show s.closers.set i .returned = []
      rw [hnil]; rfl
    · intro c _ _
      exact Or.inr hd
    · intro c _ _
      exact hsf
  · cases hstep

private theorem inv_serveCall (s s' : LState) (hinv : Inv s) (hstep : lstep s .serveCall = some s') : Inv s' := by
  simp only [lstep] at hstep
  obtain ⟨h1, h2, h3, h4, h5, h6, h7⟩ := hinv
  split at hstep
  · cases hstep
  · rename_i hnc
    have hnc' : s.serve = .notCalled := by simpa using hnc
    have hsf : s.serving = false := by
      cases hsv : s.serving with
      | false => rfl
      | true => rcases h2.mp hsv with hb | hb <;> rw [hnc'] at hb <;> cases hb
    have hdf : s.doneServing = false := by
      cases hd : s.doneServing with
      | false => rfl
      | true => have := h3 hd; rw [hnc'] at this; cases this
    split at hstep
    · cases hstep
      refine ⟨h1, ?_, fun _ => rfl, h4, h5, h6, h7⟩
      show s.serving = true ↔ _
      rw [hsf]; simp
    · rename_i hcs
      cases hstep
      simp only [Bool.or_eq_true, not_or, Bool.not_eq_true] at hcs
      have hnil : s.closers = [] := by
        cases hcl : s.closers with
        | nil => rfl
        | cons a l =>
          have := h4 (by rw [hcl]; exact List.cons_ne_nil _ _)
          rw [hcs.2] at this; cases this
      refine ⟨?_, ?_, ?_, h4, ?_, ?_, ?_⟩
      · intro p hp
        rcases List.mem_map.mp hp with ⟨q, _, rfl⟩
        rfl
      · show true = true ↔ _
        simp
      · intro hd
        have hd' : s.doneServing = true := hd
        rw [hdf] at hd'; cases hd'
      · intro c hc
        have hc' : c ∈ s.closers := hc
        rw [hnil] at hc'; cases hc'
      · intro c hc
        have hc' : c ∈ s.closers := hc
        rw [hnil] at hc'; cases hc'
      · show ((s.peers.map fun p => (p.1, true)).map (·.1)).Nodup
        rw [List.map_map]
        exact h7

private theorem inv_serveWake (s s' : LState) (hinv : Inv s) (hstep : lstep s .serveWake = some s') : Inv s' := by
  simp only [lstep] at hstep
  obtain ⟨h1, h2, h3, h4, h5, h6, h7⟩ := hinv
  split at hstep
  · rename_i hc
    cases hstep
    simp only [Bool.and_eq_true, beq_iff_eq] at hc
    have hsv : s.serving = true := h2.mpr (Or.inl hc.1)
    refine ⟨h1, ?_, ?_, h4, h5, h6, h7⟩
    · show s.serving = true ↔ _
      rw [hsv]; simp
    · intro hd
      have := h3 hd
      rw [hc.1] at this; cases this
  · cases hstep

private theorem inv_listenerError (s s' : LState) (hinv : Inv s) (hstep : lstep s .listenerError = some s') : Inv s' := by
  simp only [lstep] at hstep
  obtain ⟨h1, h2, h3, h4, h5, h6, h7⟩ := hinv
  split at hstep
  · rename_i hc
    cases hstep
    simp only [beq_iff_eq] at hc
    have hsv : s.serving = true := h2.mpr (Or.inl hc)
    refine ⟨h1, ?_, ?_, h4, h5, h6, h7⟩
    · show s.serving = true ↔ _
      rw [hsv]; simp
    · intro hd
      have := h3 hd
      rw [hc] at this; cases this
  · cases hstep

private theorem inv_serveTeardown (s s' : LState) (hinv : Inv s) (hstep : lstep s .serveTeardown = some s') : Inv s' := by
  simp only [lstep] at hstep
  obtain ⟨h1, h2, h3, h4, h5, h6, h7⟩ := hinv
  split at hstep
  · cases hstep
    refine ⟨?_, ?_, fun _ => rfl, h4, ?_, ?_, ?_⟩
    · intro p hp
      rcases List.mem_map.mp hp with ⟨q, _, rfl⟩
      rfl
    · show false = true ↔ _
      simp
    · intro c _ _
      exact Or.inr rfl
    · intro c _ _
      rfl
    · show ((s.peers.map fun p => (p.1, false)).map (·.1)).Nodup
      rw [List.map_map]
      exact h7
  · cases hstep

private theorem inv_step (s s' : LState) (e : LEv) (hinv : Inv s) (hstep : lstep s e = some s') : Inv s' := by
  cases e with
  | add k => exact inv_add s s' k hinv hstep
  | del k => exact inv_del s s' k hinv hstep
  | closeCall => exact inv_closeCall s s' hinv hstep
  | closeReturn i => exact inv_closeReturn s s' i hinv hstep
  | serveCall => exact inv_serveCall s s' hinv hstep
  | serveWake => exact inv_serveWake s s' hinv hstep
  | listenerError => exact inv_listenerError s s' hinv hstep
  | serveTeardown => exact inv_serveTeardown s s' hinv hstep

private theorem serving_false_of_returned (s : LState) (hinv : Inv s) (hr : s.serve = .returned) : s.serving = false := by
  cases hsv : s.serving with
  | false => rfl
  | true => rcases hinv.2.1.mp hsv with hb | hb <;> rw [hr] at hb <;> cases hb

theorem inv_reachable (s : LState) (h : LReach s) : Inv s := by
  induction h with
  | init => exact inv_init
  | step e _ hstep ih => exact inv_step _ _ e ih hstep

/-- "a peer added while serving starts operating; a peer added otherwise does not; a deleted peer is stopped":
in every reachable state the running peers are exactly the registered ones iff the server is serving -/
theorem started_iff_serving (s : LState) (h : LReach s) (k : Nat) (b : Bool) (hk : (k, b) ∈ s.peers) :
    b = s.serving :=
  (inv_reachable s h).1 (k, b) hk

/-- once `Serve` has returned nothing is running — whatever calls were made in whatever window -/
theorem quiescent_after_serve (s : LState) (h : LReach s) (hr : s.serve = .returned) :
    ∀ p ∈ s.peers, p.2 = false := by
  have hinv := inv_reachable s h
  intro p hp
  rw [hinv.1 p hp]
  exact serving_false_of_returned s hinv hr

/-- a `Close` that has returned leaves nothing running, now and in every later state (it returns at once only if
nothing was serving — and then no later `Serve` starts anything —, otherwise only after the tear-down) -/
theorem close_returned_quiescent (s : LState) (h : LReach s) (i : Nat) (hc : s.closers[i]? = some .returned) :
    s.serving = false ∧ ∀ p ∈ s.peers, p.2 = false := by
  have hinv := inv_reachable s h
  have hsf : s.serving = false := hinv.2.2.2.2.2.1 _ (List.mem_of_getElem? hc) rfl
  refine ⟨hsf, ?_⟩
  intro p hp
  rw [hinv.1 p hp]
  exact hsf

/-- no `Close` waits for ever: while one waits, `Serve` can always take its next step, and after the tear-down the
`Close` itself can return (progress; fairness of the scheduler assumed) -/
theorem close_progress (s : LState) (h : LReach s) (i : Nat) (hc : s.closers[i]? = some .waiting) :
    (lstep s .serveWake).isSome ∨ (lstep s .serveTeardown).isSome ∨ (lstep s (.closeReturn i)).isSome := by
  have hinv := inv_reachable s h
  obtain ⟨_, h2, _, h4, h5, _, _⟩ := hinv
  have hmem := List.mem_of_getElem? hc
  have hcs : s.closeSignalled = true := h4 (List.ne_nil_of_mem hmem)
  rcases h5 _ hmem rfl with hsv | hd
  · rcases h2.mp hsv with hb | hb
    · left; simp [lstep, hb, hcs]
    · right; left; simp [lstep, hb]
  · right; right; simp [lstep, hd, hc]

/-- `Serve` after `Close` returns `ErrServerClosed` without starting anything (any interleaving) -/
theorem serve_after_close (s s' : LState) (h : LReach s) (hc : s.closeSignalled = true) (hs : lstep s .serveCall = some s') :
    s'.serve = .returned ∧ s'.peers = s.peers ∧ s'.serving = s.serving := by
  have _ := h  -- (reachability is not needed for this one)
  simp only [lstep] at hs
  split at hs
  · cases hs
  · split at hs
    · cases hs; exact ⟨rfl, rfl, rfl⟩
    · rename_i hn
      simp [hc] at hn

/-- registry calls never block and never change whether the server is serving -/
theorem registry_calls_enabled (s : LState) (k : Nat) :
    (∃ s', lstep s (.add k) = some s' ∧ s'.serving = s.serving) ∧ (∃ s', lstep s (.del k) = some s' ∧ s'.serving = s.serving) := by
  constructor
  · simp only [lstep]
    split
    · exact ⟨_, rfl, rfl⟩
    · exact ⟨_, rfl, rfl⟩
  · simp only [lstep]
    split
    · exact ⟨_, rfl, rfl⟩
    · exact ⟨_, rfl, rfl⟩

/-- non-vacuity: the window in question is reachable — `Close` has signalled, `Serve` is on its way down, and a peer
added right then is running; after the tear-down it is not -/
example : ∃ s, LReach s ∧ s.closeSignalled = true ∧ s.serve = .closing ∧ (7, true) ∈ s.peers := by
  refine ⟨_, LReach.step (.add 7) (LReach.step .serveWake (LReach.step .closeCall (LReach.step .serveCall LReach.init rfl) rfl) rfl) rfl, ?_⟩
  decide

/-! ### the channel structure the model's `Serve` / `Close` steps stand for (regenerated `Gen.Selects`) -/

def casesOf (fn : String) : List (List String) := (CoreBGP.Gen.selects.filter (·.fn = fn)).map (·.cases)
def bareOf (fn : String) : List String := (CoreBGP.Gen.bareChanOps.filter (·.fn = fn)).flatMap (·.cases)

/-- `Serve`: a non-blocking look at `doneServingCh` / `closeCh` on entry (`serveCall` refuses iff one is closed), then
the blocking `select` on `closeCh` and the listeners' error channel (`serveWake`, `listenerError`); an accept loop
offers its error or sees the listeners being closed; `Close` waits on `doneServingCh` and nothing else -/
theorem serve_close_channels :
    casesOf "Server.Serve" = [["default", "recv s.closeCh", "recv s.doneServingCh"], ["recv lisErrCh", "recv s.closeCh"]] ∧
    casesOf "Server.Serve$2" = [["recv closingListeners", "send lisErrCh"]] ∧
    bareOf "Server.Close" = ["recv s.doneServingCh"] := by decide

end CoreBGP.Props.C20Life
