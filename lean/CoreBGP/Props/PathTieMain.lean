import CoreBGP.Props.PathTiePeer
/-! Path tie for the peer manager's main loop (`peer.go`: `peer.run`, `incomingConnection`) on the regenerated control
paths: every case of the main `select` of the L2 model (`Model.Peer.pMain`) against what every path of `peer.run` that the
case and the manager state select does — which helper, with which direction, in which order; the deferred part on the
way out; the admission decision on an inbound connection (hold-down, occupied inbound slot, outbound FSM Established).
Listed under C01, C07, C10, C12, C13. -/
set_option maxRecDepth 100000
namespace CoreBGP.Props.PathTieMain
open CoreBGP CoreBGP.Model CoreBGP.Gen CoreBGP.Props.PathTie CoreBGP.Props.PathTiePeer

/-- a case of the main `select` -/
inductive MSel where
  | close | timer | err (i : Dir) | trans (i : Dir) | inConn
deriving DecidableEq, Repr, Inhabited

def allMSel : List MSel := [.close, .timer, .err .inn, .err .out, .trans .inn, .trans .out, .inConn]

/-- what a step of the main loop consists of, arguments that the model keeps included -/
inductive RI where
  | disable (i : Dir) | stopTimer | closeDone | enable (i : Dir) (withConn : Bool) | clearHoldDown
  | handleErr (i : Dir) | handle (i : Dir) | connClose | unknown
deriving DecidableEq, Repr, Inhabited

/-- a statement-level effect of `peer.run` as a step of the model; anything the model does not know is `unknown` (and
agrees with nothing) -/
def riOfCall (c : String) : Option RI :=
  if c = "deferred p.disableFSM(out)" then some (.disable .out)
  else if c = "deferred p.disableFSM(in)" then some (.disable .inn)
  else if c = "deferred p.startupDelayTimer.Stop()" then some .stopTimer
  else if c = "deferred close(p.doneCh)" then some .closeDone
  else if c = "p.enableFSM(out,nil)" then some (.enable .out false)
  else if c = "p.enableFSM(in,conn)" then some (.enable .inn true)
  else if c = "set p.inHoldDown=false" then some .clearHoldDown
  else if c = "p.handleError(in,err)" then some (.handleErr .inn)
  else if c = "p.handleError(out,err)" then some (.handleErr .out)
  else if c = "p.handleStateTransition(in,t)" then some (.handle .inn)
  else if c = "p.handleStateTransition(out,t)" then some (.handle .out)
  else if c = "conn.Close" then some .connClose
  else if c = "logf" then none
  else some .unknown

def pathRI (p : CodePath) : List RI := p.calls.filterMap riOfCall

def selName : MSel → String
  | .close => "select recv p.closeCh"
  | .timer => "select recv p.startupDelayTimer.C"
  | .err .inn => "select recv p.errorCh[in]"
  | .err .out => "select recv p.errorCh[out]"
  | .trans .inn => "select recv p.transitionCh[in]"
  | .trans .out => "select recv p.transitionCh[out]"
  | .inConn => "select recv p.inConnCh"

def selGuards : List String := allMSel.map selName

def occupiedGuard : String := "p.fsms[in]!=nil||p.fsmState[out]==establishedState"

/-- the guards of `peer.run`, read off the `select` case taken and the three facts the admission decision looks at; a
guard that is not listed here is left open, so that a path behind a new condition is selected too and has to agree -/
def envRun (c : MSel) (holdDown presentI outEst : Bool) : GEnv := fun g =>
  if selGuards.contains g then some (g == selName c)
  else if g = "p.inHoldDown" then some holdDown
  else if g = occupiedGuard then some (presentI || outEst)
  else none

/-- the model's step by `select` case -/
def clsRI (c : MSel) (refuse : Bool) : List RI :=
  match c with
  | .close => [.disable .out, .disable .inn, .stopTimer, .closeDone]
  | .timer => [.enable .out false, .clearHoldDown]
  | .err i => [.handleErr i]
  | .trans i => [.handle i]
  | .inConn => if refuse then [.connClose] else [.enable .inn true]

def clsExit (c : MSel) : String := if c = .close then "return" else "loop"

/-- the code side: each case and each value of the three facts selects at least one path, and every selected path does the
model's step and goes on as the model does (back to the `select`, or out through the deferred part) -/
theorem code_main_select :
    ∀ c ∈ allMSel, ∀ hd ∈ bools, ∀ pi ∈ bools, ∀ oe ∈ bools,
      (selected "peer.run" (envRun c hd pi oe)).isEmpty = false ∧
      (selected "peer.run" (envRun c hd pi oe)).all
        (fun p => pathRI p == clsRI c (hd || pi || oe) && p.exit == clsExit c) = true := by
  decide

/-- nothing happens between the entry of `peer.run` and its loop -/
theorem main_prologue : (prologueOf "peer.run").map (·.calls) = [[]] := by decide

/-- every path of `peer.run` is the step of some case of the model -/
theorem every_main_path_modelled :
    ∀ p ∈ pathsOf "peer.run", ∃ c ∈ allMSel, ∃ hd ∈ bools, ∃ pi ∈ bools, ∃ oe ∈ bools,
      pathSat (envRun c hd pi oe) p = true := by
  decide

/-- the model's step at the main `select`, read off a manager state -/
def modelRI (s : PState) (c : MSel) : List RI :=
  clsRI c (s.holdDown || s.presentI || s.stO == .established)

def envOfState (s : PState) (c : MSel) : GEnv := envRun c s.holdDown s.presentI (s.stO == .established)

theorem mem_bools (b : Bool) : b ∈ bools := by cases b <;> simp [bools]
theorem mem_allMSel (c : MSel) : c ∈ allMSel := by
  cases c with
  | err i => cases i <;> simp [allMSel]
  | trans i => cases i <;> simp [allMSel]
  | _ => simp [allMSel]

/-- **the main loop of the model is what the code's paths do**: for every manager state and every case of the `select`,
the case and the state select at least one control path of `peer.run`, and every selected path performs exactly the model's
step — the same helpers with the same direction in the same order — and continues where the model continues -/
theorem main_follows_code (s : PState) (c : MSel) :
    selected "peer.run" (envOfState s c) ≠ [] ∧
    ∀ p ∈ selected "peer.run" (envOfState s c), pathRI p = modelRI s c ∧ p.exit = clsExit c := by
  obtain ⟨hne, hall⟩ := code_main_select c (mem_allMSel c) s.holdDown (mem_bools _) s.presentI (mem_bools _)
    (s.stO == .established) (mem_bools _)
  refine ⟨by intro h; unfold envOfState at h; rw [h] at hne; simp at hne, ?_⟩
  intro p hp
  have h := List.all_eq_true.mp hall p hp
  simp only [Bool.and_eq_true, beq_iff_eq] at h
  exact ⟨by unfold modelRI; rw [h.1, Bool.or_assoc], h.2⟩

/-- an instruction of `pMain`'s continuation as steps of the loop body -/
def instrRI : Instr → List RI
  | .disableLog i => [.disable i]
  | .finish => [.stopTimer, .closeDone]
  | .enable i c => [.enable i c]
  | .handle i _ => [.handle i]
  | _ => []

/-- a step of `pMain` belongs to a case of the `select`, is enabled as that case is in the code (channel closed, timer armed,
an FSM offering a transition / an error, a connection handed over), and continues with the step of that case: the
instruction list, the fields written on the spot (`inHoldDown`, the timer), the refusal of the connection. `handleError` is
inlined in the model (its head is `logErr`; the rest is tied by `PathTiePeer.handle_error_paths`). -/
def stepMatches (s : PState) (c : MSel) (ls : Label × PState) : Bool :=
  match c with
  | .close => s.pclosed && ls.2.todo.flatMap instrRI ++ [] == modelRI s .close
  | .timer => s.timerArmed && ls.1 == .logUndamp && !ls.2.holdDown && !ls.2.timerArmed &&
      ls.2.todo.flatMap instrRI ++ [.clearHoldDown] == modelRI s .timer
  | .err i => (match (s.f i).pc with | .errSend _ _ _ => true | _ => false) && ls.2.todo.head? == some (.logErr i)
  | .trans i => (match (s.f i).pc with | .req t => ls.2.todo == [.handle i t] | _ => false) &&
      ls.2.todo.flatMap instrRI == modelRI s (.trans i)
  | .inConn => ls.2.todo.flatMap instrRI ++ (if ls.1 == .inConn false then [.connClose] else []) == modelRI s .inConn &&
      ls.2.holdDown == s.holdDown

/-- **every step of the model's main `select` is a case of the code's** -/
theorem pMain_steps_are_cases (s : PState) (h0 : s.todo = []) : ∀ ls ∈ pMain s, ∃ c, stepMatches s c ls = true := by
  intro ls hls
  unfold pMain at hls
  split at hls
  · simp at hls
  · simp only [List.mem_append] at hls
    rcases hls with ((hA | hB) | hC) | hD
    · refine ⟨.close, ?_⟩
      split at hA
      · rename_i hc
        simp only [List.mem_singleton] at hA
        subst hA
        simp [stepMatches, modelRI, clsRI, instrRI, hc]
      · simp at hA
    · simp only [List.flatMap_cons, List.flatMap_nil, List.append_nil, List.mem_append] at hB
      rcases hB with hO | hI
      · split at hO
        · rename_i t ht
          simp only [List.mem_singleton] at hO
          subst hO
          have ht' : s.fo.pc = FPc.req t := ht
          exact ⟨.trans .out, by simp [stepMatches, modelRI, clsRI, instrRI, ht', PState.setF, PState.f]⟩
        · rename_i st d k ht
          simp only [List.mem_singleton] at hO
          subst hO
          have ht' : s.fo.pc = FPc.errSend st d k := ht
          exact ⟨.err .out, by simp [stepMatches, ht', PState.setF, PState.f]⟩
        · simp at hO
      · split at hI
        · rename_i t ht
          simp only [List.mem_singleton] at hI
          subst hI
          have ht' : s.fi.pc = FPc.req t := ht
          exact ⟨.trans .inn, by simp [stepMatches, modelRI, clsRI, instrRI, ht', PState.setF, PState.f]⟩
        · rename_i st d k ht
          simp only [List.mem_singleton] at hI
          subst hI
          have ht' : s.fi.pc = FPc.errSend st d k := ht
          exact ⟨.err .inn, by simp [stepMatches, ht', PState.setF, PState.f]⟩
        · simp at hI
    · refine ⟨.timer, ?_⟩
      split at hC
      · rename_i hc
        simp only [List.mem_singleton] at hC
        subst hC
        simp [stepMatches, modelRI, clsRI, instrRI, hc]
      · simp at hC
    · refine ⟨.inConn, ?_⟩
      split at hD
      · rename_i hc
        simp only [List.mem_singleton] at hD
        subst hD
        have : (s.holdDown || s.presentI || s.stO == St.established) = true := by
          simpa [Bool.or_eq_true, beq_iff_eq] using hc
        simp [stepMatches, modelRI, clsRI, instrRI, this, h0]
      · rename_i hc
        simp only [List.mem_singleton] at hD
        subst hD
        have : (s.holdDown || s.presentI || s.stO == St.established) = false := by
          cases h1 : s.holdDown <;> cases h2 : s.presentI <;> cases h3 : (s.stO == St.established) <;>
            simp_all [beq_iff_eq]
        simp [stepMatches, modelRI, clsRI, instrRI, this]

/-- … and an inbound connection is always taken by the manager at its `select` (admitted or closed): the case is never
disabled while the manager runs -/
theorem inConn_always_served (s : PState) (h : s.pdone = false) (h0 : s.todo = []) :
    ∃ ls ∈ pMain s, stepMatches s .inConn ls = true ∧ (ls.1 = .inConn true ∨ ls.1 = .inConn false) := by
  by_cases hc : (s.holdDown || s.presentI || s.stO = .established)
  · refine ⟨(.inConn false, s), ?_, ?_, Or.inr rfl⟩
    · unfold pMain; simp [h, hc]
    · have : (s.holdDown || s.presentI || s.stO == St.established) = true := by
        simpa [Bool.or_eq_true, beq_iff_eq] using hc
      simp [stepMatches, modelRI, clsRI, instrRI, this, h0]
  · refine ⟨(.inConn true, { s with todo := [.enable .inn true] }), ?_, ?_, Or.inl rfl⟩
    · unfold pMain; simp [h, hc]
    · have : (s.holdDown || s.presentI || s.stO == St.established) = false := by
        cases h1 : s.holdDown <;> cases h2 : s.presentI <;> cases h3 : (s.stO == St.established) <;>
          simp_all [beq_iff_eq]
      simp [stepMatches, modelRI, clsRI, instrRI, this]

/-- `incomingConnection` (the server's hand-over): the connection goes to the manager, or is closed because the peer is
being stopped — never dropped open -/
theorem incoming_connection_paths :
    (pathsOf "peer.incomingConnection").map (fun p => (p.guards, p.calls, p.exit)) =
      [([("select recv p.closeCh", true)], ["conn.Close"], "return"),
       ([("select send p.inConnCh", true)], [], "return")] := by
  decide

/-- the hypotheses are met: a manager in hold-down with an Established outbound FSM refuses; an idle one admits -/
example : modelRI { holdDown := true } .inConn = [.connClose] ∧ modelRI {} .inConn = [.enable .inn true] ∧
    modelRI { stO := .established } .inConn = [.connClose] := by decide

end CoreBGP.Props.PathTieMain
