import CoreBGP.Model.Packet
import CoreBGP.Model.Reader
import CoreBGP.Model.Update
import CoreBGP.Lemmas.Reader
/-!
# C05 (decoder half) — the decoding entry points return instead of panicking, for every byte slice

In the model a Go runtime panic (slice bounds out of range) is the value `.panic`; it can only
arise where the Go code does index arithmetic (`b[2 : capLen+2]`, `b[wrl : wrl+2]`, `b[nhLen+1:]`),
which is where the model uses the bounds-checked `slice?` / `sliceFrom?` with Go's fixed-width
arithmetic. The decoders written by pattern matching over the byte list (typed attribute
decoders, prefixes, add-path tuples, NOTIFICATION) have no index expression that the model could
get wrong *silently*: each `b[i]`, `b[:n]` of the Go code sits under the length guard that the
pattern expresses, and the differential run (with `recover`) checks that the Go side agrees.
Lengths are `Nat`: there is no 65 535 bound in any statement.
-/
namespace CoreBGP.Props.C05
open CoreBGP CoreBGP.Model

/-- `UpdateDecoder.Decode` never panics: for every byte string of any length and callbacks of any
behaviour (that themselves return) -/
theorem decodeUpdate_no_panic (cb : Callbacks) (b : Bytes) : decodeUpdate cb b ≠ .panic :=
  Lemmas.decodeUpdate_no_panic cb b

/-- the MP_REACH_NLRI splitter never panics, for every next-hop length octet and every length -/
theorem mpReach_no_panic (flags : UInt8) (b : Bytes) (fn : MPReachArgs → Option Err) :
    mpReach flags b fn ≠ .panic :=
  Lemmas.mpReach_no_panic flags b fn

/-- the OPEN decoder never panics -/
theorem decodeOpen_no_panic (b : Bytes) : decodeOpen b ≠ .panic :=
  Lemmas.decodeOpen_no_panic b

/-- the capability-parameter decoder cannot panic on the inputs an OPEN can hand it (at most
255 bytes); on longer inputs the 8-bit `capLen+2` can wrap — which is why the bound matters -/
theorem decodeCaps_no_panic (b : Bytes) (h : b.length ≤ 255) : decodeCaps b ≠ .panic :=
  Lemmas.decodeCaps_no_panic b h

/-- the reader (framing + per-type decoding) never panics on any stream -/
theorem reader_no_panic (s : Bytes) : (readAll s).2 ≠ .panic :=
  Lemmas.reader_no_panic s

end CoreBGP.Props.C05
