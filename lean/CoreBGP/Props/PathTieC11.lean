import CoreBGP.Props.PathTie
/-! Path tie of C11 (see `Props.PathTie` for the method): `Model.Reconnect` (the timed model of the outbound FSM before
OpenSent) against the regenerated control paths of `idle`, `connect`, `active` and the Active exit of `openSent`. -/
set_option linter.unusedSimpArgs false
namespace CoreBGP.Props.PathTieC11
open CoreBGP CoreBGP.Model CoreBGP.Gen CoreBGP.Props.PathTie

/-- the classes of an event of the model: the Go function that runs and the guards the event fixes. A successful dial has
two: its result is taken by the `select`, or by the connect-retry case that had just cancelled it -/
def rclsOf : REv → List RCls
  | .idleFire => [⟨"idle", [("select recv f.idleHoldTimer.C", true)]⟩]
  | .dialFailed => [⟨"connect", [("select recv f.dialResultCh", true), ("dr.err!=nil", true)]⟩]
  | .dialOK => [⟨"connect", [("select recv f.dialResultCh", true), ("dr.err!=nil", false)]⟩,
                ⟨"connect", [("select recv f.connectRetryTimer.C", true), ("dr.err!=nil", false)]⟩]
  | .crFireRedial => [⟨"connect", [("select recv f.connectRetryTimer.C", true), ("dr.err!=nil", true)]⟩]
  | .crFireActive => [⟨"active", [("f.conn!=nil", false), ("select recv f.connectRetryTimer.C", true)]⟩]
  | .lostToActive => [⟨"openSent", [("select recv f.readerErrCh", true), ("errors.As(err,&nerr)", false)]⟩]
  | _ => []

/-- what an event does, as effects in order, and where it leads -/
def evREffs : REv → RCls → List REff × RSt
  | .idleFire, _ => ([.armCR, .dial, .armIdle], .connect)
  | .dialFailed, _ => ([.recvDial, .stopCR, .cancelDial], .idle)
  | .dialOK, c =>
    if c.guards.contains ("select recv f.dialResultCh", true) then ([.recvDial, .setConn, .stopCR], .connected)
    else ([.stopCR, .cancelDial, .recvDial, .setConn], .connected)
  | .crFireRedial, _ => ([.stopCR, .cancelDial, .recvDial, .armCR, .dial], .connect)
  | .crFireActive, _ => ([.stopCR, .armCR, .dial], .connect)
  | .lostToActive, _ => ([.armCR], .active)
  | _, _ => ([], .idle)

def curSt : REv → RSt
  | .idleFire => .idle
  | .crFireActive => .active
  | .lostToActive => .connected
  | _ => .connect

def events : List REv := [.idleFire, .dialFailed, .dialOK, .crFireRedial, .crFireActive, .lostToActive]

/-- the code side: for every event and each of its classes some path is selected, and every selected path has the
effects and the destination of the table -/
theorem code_reconnect_effects :
    ∀ ev ∈ events, ∀ c ∈ rclsOf ev,
      (selected c.fn (envOfRCls c)).isEmpty = false ∧
      (selected c.fn (envOfRCls c)).all (fun p => pathREffs p == (evREffs ev c).1 && pathRSt (curSt ev) p == some (evREffs ev c).2) = true := by
  decide

/-- the model side: a step of `rstep` changes the two timers, the outstanding dial and the state as the effects of (each
class of) its event do -/
theorem rstep_effects (s s' : RSess) (ev : REv) (h : rstep s ev = some s') (hev : ev ∈ events) :
    ∀ c ∈ rclsOf ev,
      (evREffs ev c).1.foldl (applyREff s.now s.cr s.ih) (riOf s) = riOf s' ∧ (evREffs ev c).2 = s'.st := by
  intro c hc
  cases ev with
  | tick dt => simp [events] at hev
  | lostToIdle => simp [events] at hev
  | idleFire =>
    simp [rclsOf] at hc; subst hc
    simp [rstep] at h; obtain ⟨_, rfl⟩ := h
    simp [evREffs, applyREff, riOf]
  | dialFailed =>
    simp [rclsOf] at hc; subst hc
    simp [rstep] at h; obtain ⟨_, rfl⟩ := h
    simp [evREffs, applyREff, riOf]
  | dialOK =>
    simp [rclsOf] at hc
    simp [rstep] at h; obtain ⟨_, rfl⟩ := h
    rcases hc with rfl | rfl <;> simp [evREffs, applyREff, riOf]
  | crFireRedial =>
    simp [rclsOf] at hc; subst hc
    simp [rstep] at h; obtain ⟨⟨hst, _⟩, rfl⟩ := h
    simp [evREffs, applyREff, riOf, hst]
  | crFireActive =>
    simp [rclsOf] at hc; subst hc
    simp [rstep] at h; obtain ⟨_, rfl⟩ := h
    simp [evREffs, applyREff, riOf]
  | lostToActive =>
    simp [rclsOf] at hc; subst hc
    simp [rstep] at h; obtain ⟨_, rfl⟩ := h
    simp [evREffs, applyREff, riOf]

/-- **`Model.Reconnect` arms the timers and dials where the code does**: for every step of the timed model of the
outbound FSM (idle-hold expiry, dial result, connect-retry expiry in Connect and in Active, loss of the connection in
OpenSent), every control path of the Go state function selected for the event, read as timer / dial operations (taking
a `select` case included), turns timers and outstanding dial of the state before the step into those of the state
after it, and leaves for the state the model is in afterwards -/
theorem rstep_follows_code (s s' : RSess) (ev : REv) (h : rstep s ev = some s') (hev : ev ∈ events) :
    ∀ c ∈ rclsOf ev, selected c.fn (envOfRCls c) ≠ [] ∧
      ∀ p ∈ selected c.fn (envOfRCls c),
        (pathREffs p).foldl (applyREff s.now s.cr s.ih) (riOf s) = riOf s' ∧ pathRSt (curSt ev) p = some s'.st := by
  intro c hc
  obtain ⟨heff, hst⟩ := rstep_effects s s' ev h hev c hc
  obtain ⟨hne, hall⟩ := code_reconnect_effects ev hev c hc
  refine ⟨by intro h0; rw [h0] at hne; simp at hne, ?_⟩
  intro p hp
  have := List.all_eq_true.mp hall p hp
  simp only [Bool.and_eq_true, beq_iff_eq] at this
  rw [this.1, this.2, hst]; exact ⟨heff, rfl⟩

/-- every path of `idle`, `connect`, `active` is a path of the model, a stop (`closeCh`: `PathTieC10`), or the start of
an FSM that was created for an accepted connection (`f.conn != nil` in `active`) -/
theorem every_early_path_modelled :
    ∀ fn ∈ ["idle", "connect", "active"], ∀ p ∈ pathsOf fn,
      p.guards.contains ("select recv f.closeCh", true) = true ∨ p.guards.contains ("f.conn!=nil", true) = true ∨
      (events.any fun ev => (rclsOf ev).any fun c => c.fn == fn && pathSat (envOfRCls c) p) = true := by
  decide

/-- a connection that came up but on which the OPEN could not be built or written is closed and the FSM goes to Idle — never
to Active with the dead connection still in hand (the model: `dialOK` followed by `lostToIdle`; the next attempt starts after
the idle-hold time) -/
theorem open_failure_to_idle :
    (∀ p ∈ pathsOf "sendOpenAndSetHoldTimer", p.guards.any (·.2) = true →
      p.ret = ["idleState"] ∧ p.calls.getLast? = some "f.conn.Close") ∧
    (∀ p ∈ pathsOf "sendOpenAndSetHoldTimer", p.guards.all (·.2 == false) = true → p.ret = ["openSentState"]) ∧
    (∀ s : RSess, s.st = .connected → (rstep s .lostToIdle).map (·.st) = some .idle) := by
  refine ⟨by decide, by decide, ?_⟩
  intro s h; simp [rstep, h]

end CoreBGP.Props.PathTieC11
