import Driver.L0Packet
import CoreBGP.Model.Session
import CoreBGP.Spec.Session
/-!
# Live-trace driver (DESIGN 7.2, appendix B)

Reads the traces recorded by `harness/cmd/live` (one scenario after another), and for each
scenario checks
* **per connection (L1)**: the observed outputs of corebgp on that connection (wire messages,
  callbacks) are reproduced exactly by the deterministic session model `Model.react` run over the
  inputs the remote actually sent, up to an admissible external ending (local close / hold-timer
  expiry / transport failure);
* **monitors**: the executable specifications (plugin-history language, strict framing of
  everything corebgp wrote, UPDATE delivery, shutdown completeness, …) evaluated directly on the
  trace.
-/
namespace Driver
open CoreBGP CoreBGP.Model

structure Ev where
  seq : Nat
  t : Nat
  peer : String
  ev : String
  args : List String
deriving Repr, Inhabited

def parseEv (line : String) : Option Ev :=
  match line.splitOn " " with
  | seq :: t :: peer :: ev :: args => do
    pure ⟨← seq.toNat?, ← t.toNat?, peer, ev, args⟩
  | _ => none

def Ev.arg (e : Ev) (i : Nat) : String := e.args.getD i ""

/-! ### extraction -/

structure ConnInfo where
  id : String
  isOut : Bool                       -- corebgp dialled it
  tOpen : Nat
  sends : List (Nat × Nat × Bytes)   -- (seq, t, bytes) the remote wrote
  recvs : List (Nat × Nat × Bytes)   -- (seq, t, bytes) the remote read
  ended : Option (Nat × String)      -- t, "eof" | "rst"
  endSeq : Option Nat                -- seq of that event
  remoteClosed : Option Nat          -- seq of r.close / r.reset
  pauses : List (Nat × Nat) := []    -- intervals in which the remote deliberately did not read
  tornWrite : Bool := false          -- some WriteUpdate call of this peer returned an error
  remoteFin : Bool := false          -- the remote only half-closed (FIN): everything it sent before is read by corebgp, and it
                                     -- keeps reading what corebgp writes until corebgp closes
deriving Inhabited

def ConnInfo.inbound (c : ConnInfo) : Bytes := c.sends.flatMap (·.2.2)
def ConnInfo.outbound (c : ConnInfo) : Bytes := c.recvs.flatMap (·.2.2)

def hexArg (s : String) : Bytes := (Term.bytesOfHex s).getD []

def connsOf (evs : List Ev) (peer : String) : List ConnInfo :=
  let ids := (evs.filter fun e => e.peer == peer && e.ev == "conn" && (e.arg 1 == "accepted" || e.arg 1 == "dialed")).map fun e => (e.arg 0, e.t)
  ids.map fun (id, t0) =>
    let mine := evs.filter fun e => e.peer == peer && e.arg 0 == id
    { id := id, isOut := id.startsWith "o", tOpen := t0,
      sends := (mine.filter (·.ev == "r.send")).map fun e => (e.seq, e.t, hexArg (e.arg 1)),
      recvs := (mine.filter (·.ev == "r.recv")).map fun e => (e.seq, e.t, hexArg (e.arg 1)),
      ended := (mine.find? fun e => e.ev == "r.eof" || e.ev == "r.rst").map fun e => (e.t, (e.ev.drop 2).toString),
      endSeq := (mine.find? fun e => e.ev == "r.eof" || e.ev == "r.rst").map (·.seq),
      remoteClosed := (mine.find? fun e => e.ev == "r.close" || e.ev == "r.reset").map (·.seq),
      remoteFin := mine.any fun e => e.ev == "r.close" && e.arg 1 == "fin",
      tornWrite := evs.any fun e => e.peer == peer && e.ev == "wu.ret" && e.arg 2 == "err",
      pauses := (mine.filter (·.ev == "r.pause")).map fun e =>
        (e.t, ((mine.find? fun x => x.ev == "r.resume" && x.seq > e.seq).map (·.t)).getD (e.t + (e.arg 1).toNat?.getD 0 * 1000000)) }

structure CbCall where
  name : String
  gid : String
  enterArgs : List String
  exitArgs : List String
  seqEnter : Nat
  seqExit : Nat
  tEnter : Nat
  tExit : Nat := 0
deriving Inhabited, Repr

/-- callbacks of a peer in order of entry; each enter is paired with the next exit of the same
name on the same goroutine -/
def callbacksOf (evs : List Ev) (peer : String) : List CbCall :=
  let mine := evs.filter fun e => e.peer == peer && (e.ev == "cb.enter" || e.ev == "cb.exit")
  let rec go : List Ev → List CbCall
    | [] => []
    | e :: rest =>
      if e.ev == "cb.enter" then
        let ex := rest.find? fun x => x.ev == "cb.exit" && x.arg 0 == e.arg 0 && x.arg 1 == e.arg 1
        { name := e.arg 0, gid := e.arg 1, enterArgs := e.args.drop 2,
          exitArgs := (ex.map (·.args.drop 2)).getD ["<no-exit>"],
          seqEnter := e.seq, seqExit := (ex.map (·.seq)).getD 1000000000, tEnter := e.t,
          tExit := (ex.map (·.t)).getD e.t } :: go rest
      else go rest
  go mine

def parseNotifArg (s : String) : Option Notif :=
  if s == "nil" then none else (Term.parse s).bind Dec.notif

/-- split a goroutine's callbacks into connection attempts at each GetCapabilities -/
def segments (cbs : List CbCall) : List (List CbCall) :=
  let gids := cbs.foldl (fun acc c => if acc.contains c.gid then acc else acc ++ [c.gid]) []
  gids.flatMap fun g =>
    let mine := cbs.filter (·.gid == g)
    let rec split (cur : List CbCall) : List CbCall → List (List CbCall)
      | [] => if cur.isEmpty then [] else [cur]
      | c :: rest =>
        if c.name == "GetCapabilities" then (if cur.isEmpty then [] else [cur]) ++ split [c] rest
        else split (cur ++ [c]) rest
    split [] mine

/-- the connection tag capability (code 77) the harness puts into the OPENs it sends -/
def tagOfCaps (capsTerm : String) : Option String :=
  match (Term.parse capsTerm).bind Dec.caps with
  | some cs => (cs.find? (·.code == 77)).map fun c => String.ofList (c.value.map fun b => Char.ofNat b.toNat)
  | none => none

def sec : Nat := 1000000000
def ms : Nat := 1000000

/-- inbound messages of a connection with the time of the `r.send` that completed each -/
def inboundTimed (c : ConnInfo) : List (Nat × UInt8 × Bytes) := Id.run do
  let mut out : List (Nat × UInt8 × Bytes) := []
  let mut buf : Bytes := []
  for (_, t, b) in c.sends do
    buf := buf ++ b
    let mut go := true
    while go do
      if buf.length < 19 then go := false
      else
        let len := Spec.n16 (buf.getD 16 0) (buf.getD 17 0)
        if len < 19 || buf.length < len then go := false
        else
          out := out ++ [(t, buf.getD 18 0, (buf.take len).drop 19)]
          buf := buf.drop len
  return out

/-- outbound messages of a connection with the time of the `r.recv` that completed each -/
def outboundTimed (c : ConnInfo) : List (Nat × UInt8 × Bytes) := Id.run do
  let mut out : List (Nat × UInt8 × Bytes) := []
  let mut buf : Bytes := []
  for (_, t, b) in c.recvs do
    buf := buf ++ b
    let mut go := true
    while go do
      if buf.length < 19 then go := false
      else
        let len := Spec.n16 (buf.getD 16 0) (buf.getD 17 0)
        if len < 19 || buf.length < len then go := false
        else
          out := out ++ [(t, buf.getD 18 0, (buf.take len).drop 19)]
          buf := buf.drop len
  return out


/-! ### L1: one connection against the session model -/

structure SimState where
  beyondOpenSent : Bool := false  -- the session reached OpenConfirm at some point (timer KEEPALIVEs possible since)
  phase : Phase
  out : List (UInt8 × Bytes)     -- corebgp's remaining outbound messages (type, whole message)
  cbs : List CbCall
  estCalled : Bool
deriving Inhabited

/-- messages that may appear at any time without being a reaction to an input: timer KEEPALIVEs once
the session is beyond OpenSent, UPDATEs of `WriteUpdate` callers once `OnEstablished` was entered -/
def skippable (ka upd : Bool) (m : UInt8 × Bytes) : Bool := (m.1 == 4 && ka) || (m.1 == 2 && upd)

def dropSkippable (ka upd : Bool) : List (UInt8 × Bytes) → List (UInt8 × Bytes)
  | m :: rest => if skippable ka upd m then dropSkippable ka upd rest else m :: rest
  | [] => []

/-- match the expected actions against the observation; `none` = mismatch at that action -/
def matchActs (lenient : Bool) (ph : Phase) : List Act → SimState → Except String SimState
  | [], s => .ok s
  | a :: rest, s =>
    match a with
    | .send b =>
      -- a timer KEEPALIVE / a WriteUpdate may precede; the expected bytes themselves come first if equal
      let o := match s.out with
        | m :: tl => if m.2 == b then m :: tl else dropSkippable (s.beyondOpenSent || ph != Phase.openSent) s.estCalled s.out
        | [] => []
      (match o with
       | m :: tl =>
         if m.2 == b then matchActs lenient ph rest { s with out := tl }
         else if lenient then matchActs lenient ph rest s
         else .error s!"expected corebgp to send {Term.hexOf b} but it sent {Term.hexOf m.2}"
       | [] => if lenient then matchActs lenient ph rest s else .error s!"expected corebgp to send {Term.hexOf b} but it sent nothing more")
    | .close => matchActs lenient ph rest s
    | .report _ _ => matchActs lenient ph rest s
    | .onOpen id caps =>
      (match s.cbs with
       | c :: tl =>
         if c.name == "OnOpenMessage" && c.enterArgs == [toString id.toNat, (Enc.caps caps).toStr] then
           matchActs lenient ph rest { s with cbs := tl }
         else .error s!"expected OnOpenMessage({id.toNat},{(Enc.caps caps).toStr}) but saw {c.name} {c.enterArgs}"
       | [] => .error "expected OnOpenMessage but no callback followed")
    | .onEstablished =>
      (match s.cbs with
       | c :: tl => if c.name == "OnEstablished" then matchActs lenient ph rest { s with cbs := tl, estCalled := true }
                    else .error s!"expected OnEstablished but saw {c.name}"
       | [] => .error "expected OnEstablished but no callback followed")
    | .handler b =>
      (match s.cbs with
       | c :: tl => if c.name == "handler" && c.enterArgs == [Term.hexOf b] then matchActs lenient ph rest { s with cbs := tl }
                    else .error s!"expected handler({Term.hexOf b}) but saw {c.name} {c.enterArgs}"
       | [] => .error s!"expected handler({Term.hexOf b}) but no callback followed")
    | .onClose =>
      (match s.cbs with
       | c :: tl => if c.name == "OnClose" then matchActs lenient ph rest { s with cbs := tl }
                    else .error s!"expected OnClose but saw {c.name}"
       | [] => .error "expected OnClose but no callback followed")

/-- is what remains an admissible external ending? (a) local close: Cease, (b) hold-timer expiry:
(4,0), (c) transport failure: nothing; each followed by OnClose iff OnEstablished had been called -/
def externalEnding (s : SimState) (allowIO : Bool) (allowLocal : Bool) : Option String :=
  let o := dropSkippable s.beyondOpenSent s.estCalled s.out
  -- OnClose is due iff OnEstablished was called and the model has not closed the session yet
  let needClose := s.estCalled && s.phase == .established
  let cbOK := if needClose then (match s.cbs with | [c] => c.name == "OnClose" | _ => false) else s.cbs.isEmpty
  if !cbOK then some s!"callbacks after the last consumed input are not an admissible ending: {s.cbs.map (·.name)}"
  else
    match o with
    | [] =>
      -- (OPEN written, stop arrives before the manager approved OpenSent: `fsm.run` owes no Cease, `fsm.go:140`;
      -- whether OpenSent had been approved is judged by the C10 monitor from the manager's own log line)
      if allowIO || s.phase == .closed || (allowLocal && s.phase == .openSent) then none
      else some "connection ended without a NOTIFICATION although the remote neither closed nor reset it"
    | (3, m) :: trailing =>
      -- a WriteUpdate caller may still get an UPDATE out between the NOTIFICATION and the close
      if !(trailing.all fun x => x.1 == 2 && s.estCalled) then some "messages other than concurrent UPDATEs follow the final NOTIFICATION" else
      (match decodeNotif (m.drop 19) with
       | .ok n =>
         -- (the Cease corebgp sends on its own account — stop, collision — is always (6,0) without data: `ceaseNotif`; any
         -- other Cease can only be the plugin's answer to a consumed input, which the model explains itself)
         if n.code == 6 && (n.sub != 0 || !n.data.isEmpty) then some s!"unexpected NOTIFICATION ({n.code},{n.sub}) as ending: a Cease of corebgp's own has subcode 0 and no data"
         else if n.code == 6 then (if allowLocal then none else some "Cease sent although nothing in the trace asked for this connection to be closed")
         else if n.code == 4 && n.sub == 0 then none
         else some s!"unexpected NOTIFICATION ({n.code},{n.sub}) as ending"
       | _ => some "undecodable NOTIFICATION as ending")
    | m :: _ => some s!"unexpected message of type {m.1} after the last consumed input"

structure ConnVerdict where
  fails : List String
  consumed : Nat
  finalPhase : Phase
  established : Bool
  rcvdNotif : Option (UInt8 × Nat) := none    -- a NOTIFICATION from the remote that the session consumed: code, time

/-- run the session model over the inputs the remote sent and compare -/
def checkConn (cfg : SessCfg) (c : ConnInfo) (cbs : List CbCall) (allowLocal : Bool) (prompt : Bool := false) : ConnVerdict := Id.run do
  let (outFrames, outEnd) := Spec.parseStream c.outbound
  let mut fails : List String := []
  match outEnd with
  | .clean => pure ()
  -- (a WriteUpdate that was cut short by the teardown of its session — it returned an error — may leave the beginning of
  -- its message as the very last bytes of the connection)
  | .truncated => if c.ended.isSome && !c.tornWrite then fails := fails ++ ["C04 corebgp's byte stream ends inside a message"]
  | .fault _ => fails := fails ++ ["C04 corebgp's byte stream is not a concatenation of well-formed messages"]
  let outMsgs : List (UInt8 × Bytes) := outFrames.map fun (t, b) => (t, Spec.frame t b)
  match outMsgs with
  | [] => return ⟨fails, 0, .closed, false, none⟩   -- no OPEN was sent on this connection: nothing for L1
  | first :: afterOpen =>
    if first.1 != 1 then
      return ⟨fails ++ ["C14 the first message on a connection must be an OPEN"], 0, .closed, false, none⟩
    let (inMsgs, inErr) := readAll c.inbound
    -- a remote that closed or reset the connection may not have seen what corebgp wrote last, and unread input may be
    -- lost to the reset; after a mere FIN neither can happen
    let lenient := c.remoteClosed.isSome && !c.remoteFin
    let inputs : List Input := inMsgs.map .msg ++
      (match inErr with
       | .notif n out => [Input.readerErr (.notif n out)]
       | .other => [Input.readerErr .other]      -- e.g. an undecodable NOTIFICATION: a real reader error
       | _ => [])                                 -- the stream just ended: the reader blocks (or fails if the remote closed)
    let mut st : SimState := { phase := .openSent, out := afterOpen, cbs := cbs, estCalled := false }
    let mut consumed := 0
    let mut stop := false
    let mut rcvd : Option (UInt8 × Nat) := none
    for inp in inputs do
      if stop || st.phase == .closed then break
      -- the plugin's return value, if this input invokes a callback
      let ret : Option Notif := match inp, st.cbs with
        | .msg (.open_ _), cb :: _ => if cb.name == "OnOpenMessage" then parseNotifArg (cb.exitArgs.getD 0 "nil") else none
        | .msg (.update _), cb :: _ => if cb.name == "handler" then parseNotifArg (cb.exitArgs.getD 0 "nil") else none
        | _, _ => none
      let (ph', acts) := react cfg st.phase inp ret
      match matchActs lenient st.phase acts st with
      | .ok st' =>
        match inp with
        | .msg (.notif n) =>
          let tn := (((inboundTimed c).filter fun (_, ty, _) => ty == 3).head?.map (·.1)).getD 0
          rcvd := some (n.code, tn)
        | _ => pure ()
        st := { st' with phase := ph', beyondOpenSent := st'.beyondOpenSent || ph' == .openConfirm || ph' == .established }
        consumed := consumed + 1
      | .error why =>
        -- not reproduced: admissible only if what was observed instead is an external ending here
        match externalEnding st lenient allowLocal with
        | none =>
          -- a local stop excuses input that was still on its way — not input that had been lying there, whole, for more
          -- than a second while nothing kept the FSM goroutine busy (`prompt`, judged by the caller)
          if prompt && !lenient && (externalEnding st lenient false).isSome then
            fails := fails ++ [s!"L1 input #{consumed + 1} ({reprStr inp |>.take 60}) in {reprStr st.phase} had been sent more than 1 s before the connection was stopped and was neither answered nor acted upon: {why}"]
          stop := true
        | some _ =>
          fails := fails ++ [s!"L1 input #{consumed + 1} ({reprStr inp |>.take 60}) in {reprStr st.phase}: {why}"]
          stop := true
    if !stop then
      match externalEnding st (c.remoteClosed.isSome) allowLocal with
      | none => pure ()
      | some why => fails := fails ++ [s!"L1 after {consumed} inputs in {reprStr st.phase}: {why}"]
    if st.phase == .closed && c.ended.isNone && c.remoteClosed.isNone then
      fails := fails ++ ["L1 the model closes the connection here but the remote never saw it end"]
    return ⟨fails, consumed, st.phase, st.estCalled, rcvd⟩


/-! ### scenario level -/

def cfgOf (evs : List Ev) (peer : String) : Option (SessCfg × Bool) :=
  (evs.find? fun e => e.peer == peer && e.ev == "cfg").bind fun e => do
    let lid ← (e.arg 0).toNat?
    let las ← (e.arg 1).toNat?
    let ras ← (e.arg 2).toNat?
    let hold ← (e.arg 3).toNat?
    pure (⟨UInt32.ofNat lid, UInt32.ofNat las, UInt32.ofNat ras, UInt16.ofNat hold⟩, e.arg 6 == "1")

/-- the callbacks that belong to connection `c`: the attempt (segment) whose OnOpenMessage carries
`c`'s tag, from that callback on -/
def cbsForConn (segs : List (List CbCall)) (conns : List ConnInfo) (c : ConnInfo) : List CbCall :=
  let hasOpen (s : List CbCall) := s.any (·.name == "OnOpenMessage")
  let byTag := segs.find? fun s => s.any fun cb => cb.name == "OnOpenMessage" && tagOfCaps (cb.enterArgs.getD 1 "") == some c.id
  let sentOpen (x : ConnInfo) := ((readAll x.inbound).1.any fun m => match m with | .open_ _ => true | _ => false)
  let seg := match byTag with
    | some s => some s
    | none =>
      -- untagged OPEN: unambiguous only if one connection sent an OPEN and one attempt saw one
      if (conns.filter sentOpen).length == 1 && sentOpen c && (segs.filter hasOpen).length == 1 then segs.find? hasOpen else none
  match seg with
  | some s => s.dropWhile (·.name != "OnOpenMessage")
  | none => []

def histEvents (evs : List Ev) (peer : String) : List Spec.CbEv :=
  (evs.filter fun e => e.peer == peer && (e.ev == "cb.enter" || e.ev == "cb.exit")).filterMap fun e =>
    match e.ev, e.arg 0 with
    | "cb.enter", "OnEstablished" => some .estEnter
    | "cb.exit", "OnEstablished" => some .estExit
    | "cb.enter", "handler" => some .hEnter
    | "cb.exit", "handler" => some .hExit
    | "cb.enter", "OnClose" => some .closeEnter
    | "cb.exit", "OnClose" => some .closeExit
    | _, _ => none

/-- does corebgp's byte stream on `c` contain a NOTIFICATION with this code? -/
def sentNotifCode (c : ConnInfo) (code : UInt8) : Bool :=
  (Spec.parseStream c.outbound).1.any fun (t, b) => t == 3 && b.head? == some code

/-! ### monitors over the whole trace -/

/-- did corebgp send any NOTIFICATION on `c`? -/
def sentAnyNotif (c : ConnInfo) : Bool :=
  ((Spec.parseStream c.outbound).1.any fun (ty, _) => ty == 3)

def remoteOpenOf (c : ConnInfo) : Option OpenMsg :=
  match (inboundTimed c).head? with
  | some (_, 1, b) => match Spec.parseOpen b with | some o => some o | none => none
  | _ => none

/-- C06: hold-timer expiry and keepalive cadence on one connection -/
def monitorHold (cfg : SessCfg) (c : ConnInfo) (cbs : List CbCall) (tObsEnd : Nat) : List String := Id.run do
  let mut fails : List String := []
  match remoteOpenOf c, cbs.head? with
  | some o, some cb0 =>
    if cb0.name != "OnOpenMessage" || cb0.exitArgs != ["nil"] then return []
    let hold := min cfg.localHold.toNat o.holdTime.toNat
    let tUp := cb0.tEnter
    let ins := (inboundTimed c).filter fun (_, ty, _) => ty == 1 || ty == 2 || ty == 4
    let outs := outboundTimed c
    let tEnd := match c.ended with | some (t, _) => min t tObsEnd | none => tObsEnd
    -- (a) expiry
    for (tn, ty, b) in outs do
      if ty == 3 && b.take 2 == [4, 0] && tn > tUp then
        if hold == 0 then fails := fails ++ ["C06 negotiated hold time is zero but the session was expired for silence"]
        else
          let tLast := (ins.filter fun (t, _, _) => t ≤ tn).foldl (fun m (t, _, _) => max m t) 0
          if tn < tLast + hold * sec then
            fails := fails ++ [s!"C06 Hold Timer Expired sent {(tn - tLast) / ms} ms after the last message received, earlier than the hold time in force ({hold} s)"]
    -- (a') an expired session ends on corebgp's own account: the connection is closed and the plugin told (OnClose)
    -- right after the NOTIFICATION, not only when the remote closes its side or the peer is stopped
    for (tn, ty, b) in outs do
      if ty == 3 && b.take 2 == [4, 0] && tn > tUp && hold != 0 && cbs.any (·.name == "OnEstablished") then
        let oc := cbs.find? fun cb => cb.name == "OnClose"
        let late := match oc with | some cb => cb.tEnter > tn + 1000 * ms | none => true
        if tObsEnd > tn + 1100 * ms && late then
          fails := fails ++ ["C06 Hold Timer Expired was sent but the session was not ended (connection closed, OnClose) within 1 s of it"]
    -- (b) once silent for the hold time the session must be torn down
    if hold != 0 && c.remoteClosed.isNone then
      let tLast := (ins.filter fun (t, _, _) => t ≤ tEnd).foldl (fun m (t, _, _) => max m t) 0
      -- (a NOTIFICATION — Hold Timer Expired or, for another reason, any other — counts only if it came by the deadline)
      let deadline := tLast + hold * sec + 1000 * ms
      let endedInTime := outs.any fun (t, ty, _) => ty == 3 && t ≤ deadline
      if tEnd > deadline && !endedInTime then
        fails := fails ++ [s!"C06 the remote was silent for {(tEnd - tLast) / ms} ms with hold time {hold} s in force and the session was not torn down with Hold Timer Expired"]
    -- (c) cadence of what corebgp sends while the session is up
    let sends := (outs.filter fun (t, ty, _) => (ty == 4 || ty == 2) && t ≥ tUp).map (·.1)
    let tStop := match (outs.find? fun (_, ty, _) => ty == 3) with | some (t, _, _) => min t tEnd | none => tEnd
    if hold == 0 then
      if (outs.filter fun (t, ty, _) => ty == 4 && t ≥ tUp).length > 1 then
        fails := fails ++ ["C06 negotiated hold time is zero but periodic KEEPALIVEs were sent"]
    else
      let limit := hold * sec / 3 + 400 * ms
      let pts := (sends.filter (· ≤ tStop)) ++ [tStop]
      let mut prev := tUp
      for t in pts do
        -- (the remote's clock for "sent" is the moment it read the bytes: an interval in which it deliberately did not
        -- read says nothing about when corebgp sent)
        -- (and while the backlog drains afterwards the read times say nothing either: from a pause on, not judged)
        let blind := c.pauses.any fun (a, _) => a < t
        -- (the FSM goroutine, which sends the KEEPALIVEs, is the one that runs the application's callbacks: the time
        -- the application keeps it inside OnEstablished / the UPDATE handler is not corebgp's)
        -- (a KEEPALIVE can go out between two callbacks: what delays it is the longest single one, not their sum)
        let busy := cbs.foldl (fun acc cb =>
          let a := max cb.tEnter prev
          let b := min cb.tExit t
          if cb.name != "OnClose" && b > a then max acc (b - a) else acc) 0
        if t > prev + limit + busy && !blind then
          fails := fails ++ [s!"C06 {(t - prev) / ms} ms passed without corebgp sending a KEEPALIVE or UPDATE (hold time {hold} s: at most about one third)"]
        prev := max prev t
    return fails
  | _, _ => return []

/-- C04: the WriteUpdate contract for one peer -/
def monitorWriters (evs : List Ev) (peer : String) (conns : List ConnInfo) (segs : List (List CbCall)) : List String := Id.run do
  let mut fails : List String := []
  let calls := (evs.filter fun e => e.peer == peer && e.ev == "wu.call").map fun e =>
    let ret := evs.find? fun x => x.peer == peer && x.ev == "wu.ret" && x.seq > e.seq && x.arg 0 == e.arg 0 && x.arg 1 == e.arg 1
    (e.seq, e.arg 0, e.arg 1, hexArg (e.arg 2), (ret.map (·.arg 2)).getD "pending")
  if calls.isEmpty then return []
  let allBodies := conns.map fun c => (c.id, ((Spec.parseStream c.outbound).1.filter (·.1 == 2)).map (·.2))
  let cbsAll := segs.flatten
  let wids := calls.foldl (fun acc (_, w, _, _, _) => if acc.contains w then acc else acc ++ [w]) []
  for w in wids do
    -- the session of this writer and its connection
    let est := cbsAll.find? fun cb => cb.name == "OnEstablished" && cb.enterArgs.getD 0 "" == w
    match est with
    | none => fails := fails ++ [s!"C04 writer {w} was used but no OnEstablished handed it out"]
    | some est =>
      let conn := conns.find? fun c => (cbsForConn segs conns c).any (·.seqEnter == est.seqEnter)
      let closeExit := ((cbsAll.filter fun cb => cb.name == "OnClose" && cb.gid == est.gid && cb.seqEnter > est.seqEnter).head?.map (·.seqExit)).getD 1000000000
      let r : List Bytes := match conn with | some c => ((allBodies.lookup c.id).getD []) | none => []
      let mine := calls.filter fun (_, w', _, _, _) => w' == w
      for (sq, _, _, body, ret) in mine do
        if ret == "pending" then
          fails := fails ++ ["C04 a WriteUpdate call never returned (deadlock)"]
        let cnt := (r.filter (· == body)).length
        -- (what the remote never read because it closed or reset the connection itself is TCP's doing, not corebgp's)
        let remoteGone := match conn with | some c => c.remoteClosed.isSome | none => true
        if ret == "nil" && cnt != 1 && !remoteGone then
          fails := fails ++ [s!"C04 WriteUpdate returned nil but its body appears {cnt} times on the wire (must be exactly once)"]
        if cnt > 1 then fails := fails ++ ["C04 an UPDATE body appears more than once on the wire"]
        -- a write issued well after the remote reset the connection cannot have succeeded (the reset reaches the local
        -- socket at once on loopback; 20 ms allowed)
        let tCall := ((evs.find? fun x => x.seq == sq).map (·.t)).getD 0
        match conn.bind fun c => (evs.find? fun x => x.peer == peer && x.ev == "r.reset" && x.arg 0 == c.id).map (·.t) with
        | some tr => if ret == "nil" && tCall > tr + 20 * ms then
            fails := fails ++ [s!"C04 WriteUpdate returned nil although the remote had reset the connection {(tCall - tr) / ms} ms before the call"]
        | none => pure ()
        if sq > closeExit then
          if ret == "nil" then fails := fails ++ ["C04 WriteUpdate succeeded after the session had ended (OnClose returned)"]
          for (cid, bodies) in allBodies do
            if bodies.contains body then fails := fails ++ [s!"C04 a write issued after the session ended reached the wire (connection {cid})"]
        -- never on another connection
        for (cid, bodies) in allBodies do
          if some cid != conn.map (·.id) && bodies.contains body then
            fails := fails ++ [s!"C04 an UPDATE written through writer {w} appeared on another connection ({cid})"]
      -- everything on the wire was written by someone
      for body in r do
        if !(mine.any fun (_, _, _, b, _) => b == body) then
          fails := fails ++ ["C04 an UPDATE appeared on the wire that no WriteUpdate call of this session wrote"]
      -- per goroutine: call order = wire order
      let gids := mine.foldl (fun acc (_, _, g, _, _) => if acc.contains g then acc else acc ++ [g]) []
      for g in gids do
        let seqd := (mine.filter fun (_, _, g', _, ret) => g' == g && ret == "nil").map fun (_, _, _, b, _) => b
        let pos := seqd.filterMap fun b => r.findIdx? (· == b)
        if !(pos.zip (pos.drop 1)).all (fun (a, b) => a < b) then
          fails := fails ++ [s!"C04 successive WriteUpdate calls of one goroutine appear out of call order on the wire"]
  return fails.eraseDups

/-- C07: when both connections have completed their OPEN exchange and neither is Established, the one
initiated by the speaker with the higher BGP Identifier (AS as tie-break) survives -/
def monitorCollision (evs : List Ev) (cfg : SessCfg) (conns : List ConnInfo) (segs : List (List CbCall)) (stopCall : Option Nat) : List String := Id.run do
  let mut fails : List String := []
  for a in conns.filter (·.isOut) do
    for b in conns.filter (!·.isOut) do
      let ca := cbsForConn segs conns a
      let cb := cbsForConn segs conns b
      match ca.head?, cb.head?, remoteOpenOf a with
      | some oa, some ob, some ro =>
        if oa.name == "OnOpenMessage" && ob.name == "OnOpenMessage" && oa.exitArgs == ["nil"] && ob.exitArgs == ["nil"] then
          let both := max oa.seqExit ob.seqExit
          -- neither could be Established before both OPEN exchanges were complete: the remote's KEEPALIVEs came later
          let kaSeq (c : ConnInfo) : Option Nat := (c.sends.find? fun (_, _, bytes) => bytes.length == 19 && bytes.getD 18 0 == 4).map (·.1)
          let early (c : ConnInfo) := match kaSeq c with | some q => q < both | none => false
          -- both alive when the second exchange completed
          let alive (c : ConnInfo) := !((c.endSeq.map (fun q => decide (q < both))).getD false) && !((c.remoteClosed.map (fun q => decide (q < both))).getD false)
          -- … nor before the collision was resolved (a KEEPALIVE in flight makes that connection Established in RFC terms)
          let resolved := match a.endSeq, b.endSeq with
            | some x, some y => min x y | some x, none => x | none, some y => y | none, none => 1000000000
          let kaBeforeResolution (c : ConnInfo) := match kaSeq c with | some q => q < resolved | none => false
          if !early a && !early b && alive a && alive b && !kaBeforeResolution a && !kaBeforeResolution b then
            let dominant := cfg.localID.toNat > ro.bgpID.toNat || (cfg.localID.toNat == ro.bgpID.toNat && cfg.localAS.toNat > cfg.remoteAS.toNat)
            let (surv, loser) := if dominant then (a, b) else (b, a)
            let beforeStop (q : Option Nat) := match q, stopCall with | some q, some sc => q < sc | some _, none => true | none, _ => false
            if sentNotifCode surv 6 && beforeStop surv.endSeq && surv.remoteClosed.isNone then
              fails := fails ++ [s!"C07 connection {surv.id}, initiated by the speaker with the higher BGP Identifier, received Cease in the collision although it must survive (local id {cfg.localID.toNat}, remote id {ro.bgpID.toNat})"]
            let otherNotif := (Spec.parseStream loser.outbound).1.any fun (t, b) => t == 3 && b.head? != some 6
            if !sentNotifCode loser 6 && loser.remoteClosed.isNone && !otherNotif then
              fails := fails ++ [s!"C07 the losing connection {loser.id} did not receive a Cease NOTIFICATION"]
            if loser.ended.isNone && loser.remoteClosed.isNone then
              fails := fails ++ [s!"C07 the losing connection {loser.id} was not closed"]
      | _, _, _ => pure ()
  let _ := evs
  return fails

/-- C11: a passive peer never dials; refused attempts are spaced by the idle-hold time -/
def monitorPacing (evs : List Ev) (peer : String) : List String := Id.run do
  let mut fails : List String := []
  match evs.find? fun e => e.peer == peer && e.ev == "cfg" with
  | none => return []
  | some c =>
    let passive := c.arg 6 == "1"
    let ih := (c.arg 4).toNat?.getD 0 * ms
    let dials := evs.filter fun e => e.peer == peer && e.ev == "dial"
    if passive && !dials.isEmpty then fails := fails ++ ["C11 a passive peer dialled"]
    let eps := min (20 * ms) (ih / 4)
    -- exits from Idle of one FSM instance (the manager logs each approved transition) are spaced by the idle-hold time
    let outT := evs.filter fun e => e.peer == peer && e.ev == "log.t" && e.arg 0 == "out"
    let rec exits (prev : Option Ev) : List Ev → List (Ev × Ev)
      | [] => []
      | e :: rest =>
        if e.arg 2 == "disabled" || e.arg 1 == "disabled" then exits none rest
        else if e.arg 1 == "idle" && e.arg 2 == "connect" then
          (match prev with | some p => [(p, e)] | none => []) ++ exits (some e) rest
        else exits prev rest
    -- (the log line lags the action; the `dial` event of that attempt — recorded when its socket is created — is nearer to it)
    let tExit (e : Ev) : Nat :=
      let dist (x : Nat) := if x ≤ e.t then e.t - x else x - e.t
      match (dials.map (·.t)).foldl (fun (best : Option Nat) t =>
          match best with | some b => if dist t < dist b then some t else some b | none => some t) none with
      -- (only a dial close enough to be the one of THIS exit: well within one idle-hold time of the line)
      | some t => if dist t < min (50 * ms) (ih / 2) then min t e.t else e.t
      | none => e.t
    for (e1, e2) in exits none outT do
      if tExit e2 + eps < tExit e1 + ih then
        fails := fails ++ [s!"C11 two consecutive exits from Idle were only {(tExit e2 - tExit e1) / ms} ms apart although the idle-hold time is {ih / ms} ms"]
    -- in a pure refusal regime (never beyond Connect) the same holds for the dial attempts themselves
    if !(outT.any fun e => ["active", "openSent", "openConfirm", "established"].contains (e.arg 2)) &&
       (outT.filter fun e => e.arg 1 == "disabled").length ≤ 1 then
      for (d1, d2) in dials.zip (dials.drop 1) do
        if d2.t + eps < d1.t + ih then
          fails := fails ++ [s!"C11 two consecutive refused attempts were only {(d2.t - d1.t) / ms} ms apart although the idle-hold time is {ih / ms} ms"]
    -- while connects hang, every expired connect-retry timer abandons the attempt and starts a new one
    match evs.find? (fun e => e.peer == peer && e.ev == "listen" && e.arg 0 == "stalled"), evs.find? (fun e => e.peer == peer && e.ev == "stall-end") with
    | some a, some b =>
      let cr := (c.arg 5).toNat?.getD 0 * ms
      let ds := (dials.filter fun d => d.seq > a.seq && d.seq < b.seq).map (·.t)
      let pts := ds ++ [b.t]
      for (t1, t2) in pts.zip (pts.drop 1) do
        if t2 > t1 + cr + 400 * ms then
          fails := fails ++ [s!"C11 a hanging connect was not abandoned and retried after the connect-retry time ({cr / ms} ms): {(t2 - t1) / ms} ms without a new attempt"]
      if ds.isEmpty then fails := fails ++ ["C11 no outbound attempt while connects hang"]
    | _, _ => pure ()
    -- once the remote behaves, Established within idle-hold + connect-retry (+ slack)
    match evs.find? fun e => e.peer == peer && e.ev == "wellbehaved" with
    | some wb =>
      let cr := (c.arg 5).toNat?.getD 0 * ms
      let est := evs.find? fun e => e.peer == peer && e.ev == "cb.exit" && e.arg 0 == "OnEstablished" && e.seq > wb.seq
      let damped := evs.any fun e => e.peer == peer && e.ev == "log.damp"
      match est with
      | some e => if !damped && e.t > wb.t + ih + cr + 1000 * ms then
                    fails := fails ++ [s!"C11 the session took {(e.t - wb.t) / ms} ms to establish once the remote behaved (bound: idle-hold + connect-retry)"]
      | none => if !damped && !passive then fails := fails ++ ["C11 the session did not establish once the remote behaved"]
    | none => pure ()
    return fails

/-- C12: after a NOTIFICATION with a code other than Cease (either direction) the peer is held down:
no outbound attempt and no inbound session for the hold-down period; Cease / transport faults do not -/
def monitorDamping (evs : List Ev) (peer : String) (conns : List ConnInfo) (triggers : List (Nat × String)) : List String := Id.run do
  let mut fails : List String := []
  let tEndObs := ((evs.find? fun e => e.ev == "api.call" && e.arg 0 == "Close").map (·.t)).getD ((evs.getLast?.map (·.t)).getD 0)
  for (t0, what) in triggers do
    -- the hold-down lasts 60 s, or until the harness made the timer expire through the hook
    let tExpire := ((evs.find? fun e => e.peer == peer && e.ev == "hook.expire" && e.t > t0).map (·.t)).getD (t0 + 60 * sec)
    let until_ := min (min (t0 + 60 * sec) tEndObs) tExpire
    for e in evs do
      if e.peer == peer && e.ev == "dial" && e.t > t0 + 5 * ms && e.t < until_ then
        fails := fails ++ [s!"C12 an outbound attempt was made {(e.t - t0) / ms} ms after a protocol error ({what}): no hold-down"]
    for e in evs do
      if e.peer == peer && e.ev == "cb.enter" && e.arg 0 == "OnEstablished" && e.t > t0 + 5 * ms && e.t < until_ then
        fails := fails ++ [s!"C12 a session was Established {(e.t - t0) / ms} ms after a protocol error ({what}): the other connection was not dropped and the peer not held down"]
    for c in conns do
      -- served = corebgp sent its OPEN on it after the error
      let tServed := (c.recvs.head?.map (·.2.1)).getD 0
      if !c.isOut && !c.outbound.isEmpty && tServed > t0 + 5 * ms && tServed < until_ then
        fails := fails ++ [s!"C12 an inbound connection was served during the hold-down that followed {what}"]
  -- and the converse: a hold-down without a protocol error
  match evs.find? fun e => e.peer == peer && e.ev == "log.damp" with
  | some d => if triggers.isEmpty then fails := fails ++ [s!"C12 the peer was damped ({d.arg 0} s) although no NOTIFICATION other than Cease was sent or received"]
              else if d.arg 0 != "60" then fails := fails ++ [s!"C12 first hold-down is {d.arg 0} s, not 60 s"]
  | none => pure ()
  -- the back-off ladder: 60 s, then doubling up to 300 s (every trace is far shorter than the 300 s of amnesia)
  let damps := evs.filter fun e => e.peer == peer && e.ev == "log.damp"
  for (d, k) in damps.zip (List.range damps.length) do
    let want := min (60 * 2 ^ k) 300
    if k > 0 && d.arg 0 != toString want then
      fails := fails ++ [s!"C12 hold-down number {k + 1} within 300 s is {d.arg 0} s, not {want} s (doubling from 60 s up to 300 s)"]
  -- when the period ends the peer is retried: an active peer dials again (a passive one is probed by the script)
  match evs.find? fun e => e.peer == peer && e.ev == "hook.expire" with
  | some x =>
    let passive := ((evs.find? fun e => e.peer == peer && e.ev == "cfg").map (·.arg 6)).getD "0" == "1"
    if !triggers.isEmpty && tEndObs > x.t + 300 * ms then
      if !(evs.any fun e => e.peer == peer && e.ev == "log.undamp" && e.seq > x.seq) then
        fails := fails ++ ["C12 the hold-down timer expired but the peer did not leave the hold-down"]
      if !passive && !(evs.any fun e => e.peer == peer && e.ev == "dial" && e.seq > x.seq) then
        fails := fails ++ ["C12 the hold-down period ended but the peer was not retried (no outbound attempt)"]
  | none => pure ()
  -- controls: after a Cease / FIN / RST the peer must come back promptly
  match evs.find? fun e => e.peer == peer && e.ev == "fault-done" with
  | some fd =>
    if triggers.isEmpty then
      let passive := ((evs.find? fun e => e.peer == peer && e.ev == "cfg").map (·.arg 6)).getD "0" == "1"
      if !passive then
        if !(evs.any fun e => e.peer == peer && e.ev == "dial" && e.seq > fd.seq) then
          fails := fails ++ ["C12 after a Cease / transport fault the peer did not retry (it must not be held down)"]
      else
        if !(conns.any fun c => !c.isOut && c.tOpen > fd.t && !c.outbound.isEmpty) then
          fails := fails ++ ["C12 after a Cease / transport fault an inbound connection was refused (the peer must not be held down)"]
  | none => pure ()
  return fails

/-- C13: only connections from configured peers to the configured address are served -/
def monitorAdmission (evs : List Ev) (peer : String) (conns : List ConnInfo) : List String := Id.run do
  let mut fails : List String := []
  let cfgs := evs.filter fun e => e.ev == "cfg"
  for pr in evs.filter fun e => e.peer == peer && e.ev == "probe" do
    let src := pr.arg 1
    let dst := pr.arg 2
    -- the connection this probe opened
    let ce := evs.find? fun e => e.peer == peer && e.ev == "conn" && e.seq > pr.seq && e.arg 1 == "dialed"
    match ce.bind fun e => conns.find? (·.id == e.arg 0) with
    | none => pure ()
    | some c =>
      let target := cfgs.find? fun e => e.arg 8 == src
      let configured := match target with
        | some t => t.arg 7 == "-" || t.arg 7 == dst
        | none => false
      -- peer state at arrival, from the trace
      let tp := (target.map (·.peer)).getD peer
      let before (e : Ev) := e.seq < pr.seq
      let inbProgress := (connsOf evs tp).any fun x => !x.isOut && x.id != c.id && x.tOpen < pr.t &&
        !((x.endSeq.map (fun q => decide (q < pr.seq))).getD false) && !((x.remoteClosed.map (fun q => decide (q < pr.seq))).getD false)
      let estUp := ((evs.filter fun e => e.peer == tp && before e && e.ev == "cb.exit" && e.arg 0 == "OnEstablished").length) >
                   ((evs.filter fun e => e.peer == tp && before e && e.ev == "cb.exit" && e.arg 0 == "OnClose").length)
      let held := (evs.filter fun e => e.peer == tp && before e && e.ev == "log.damp").length >
                  (evs.filter fun e => e.peer == tp && before e && e.ev == "log.undamp").length
      let served := !c.outbound.isEmpty
      if !configured then
        if served then fails := fails ++ [s!"C13 a connection from {src} to {dst} was served although no configured peer matches it"]
        if c.ended.isNone && c.remoteClosed.isNone then fails := fails ++ [s!"C13 a connection from {src} to {dst} that matches no peer was not closed"]
      else if inbProgress || estUp || held then
        if served then fails := fails ++ [s!"C13 a connection from a configured peer was served although the peer was busy (inbound in progress / Established / held down)"]
        if !served && c.ended.isNone && c.remoteClosed.isNone then
          fails := fails ++ ["C13 a connection that arrived while the peer was busy was neither served nor closed"]
      else if !served then
        fails := fails ++ [s!"C13 a connection from configured peer {src} to {dst} was not served"]
  return fails

end Driver
