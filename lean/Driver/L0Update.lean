import Driver.L0Packet
import CoreBGP.Model.Update
import CoreBGP.Spec.Update
import CoreBGP.Model.Bitmap
/-!
# L0 driver: `update.go` (typed attribute decoders, prefixes, MP splitters, `UpdateDecoder`,
`UpdateNotificationFromErr`)
-/
namespace Driver
open CoreBGP CoreBGP.Model

namespace Enc
open Term

def optNotif : Option Notif → Term
  | some n => notif n
  | none => .atom "-"

mutual
partial def err : Err → Term
  | .notif n => notif n
  | .taw c n => .app "W" [u8 c, optNotif n]
  | .discard c n => .app "D" [u8 c, optNotif n]
  | .upd n => .app "U" [notif n]
  | .other => .atom "E"
  | .wrap e => .app "wrap" [err e]
  | .join es => .app "join" (es.toList.map err)
end

def optErr : Option Err → Term
  | some e => err e
  | none => .atom "nil"

def pfx (p : Prefix) : Term := .app "P" [u8 p.bits, bytes p.addr]
def appfx (p : AddPathPrefix) : Term := .app "AP" [nat p.id.toNat, u8 p.pfx.bits, bytes p.pfx.addr]
def call : Call → Term
  | .wr b => .app "wr" [bytes b]
  | .attr c f b => .app "a" [u8 c, u8 f, bytes b]
  | .nlri b => .app "nlri" [bytes b]
end Enc

namespace Dec
open Term

def optNotif : Term → Option (Option Notif)
  | .atom "-" => some none
  | t => (notif t).map some

partial def err : Term → Option Err
  | .app "W" [c, n] => do pure (.taw (← u8 c) (← optNotif n))
  | .app "D" [c, n] => do pure (.discard (← u8 c) (← optNotif n))
  | .app "U" [n] => do pure (.upd (← notif n))
  | .atom "E" => some .other
  | .app "wrap" [e] => (err e).map .wrap
  | .app "join" es => (es.mapM err).map fun l => .join (ErrList.ofList l)
  | t => (notif t).map .notif

def optErr : Term → Option (Option Err)
  | .atom "nil" => some none
  | t => (err t).map some
end Dec

/-! ### term-level views of implementation results (for the oracle) -/

/-- pre-order leaves of an implementation error tree with class and the NOTIFICATION each stands
for -/
partial def leavesOf : Term → Spec.Leaves
  | .app "N" [c, s, d] =>
    match Dec.notif (.app "N" [c, s, d]) with
    | some n => [(.notification, n)]
    | none => []
  | .app "W" [_, n] => [(.withdraw, ((Dec.optNotif n).join).getD Spec.genericUpdate)]
  | .app "D" [_, n] => [(.discard, ((Dec.optNotif n).join).getD Spec.genericUpdate)]
  | .app "U" [n] => [(.other, (Dec.notif n).getD Spec.genericUpdate)]
  | .app "wrap" [e] => leavesOf e
  | .app "join" es => es.flatMap leavesOf
  | _ => []

def strongest (t : Term) : Spec.Class :=
  (leavesOf t).foldl (fun m l => if l.1.rank > m.rank then l.1 else m) .none_

def notifTriple (n : Notif) : Nat × Nat × Bytes := (n.code.toNat, n.sub.toNat, n.data)

/-! ### typed attribute decoders -/

structure AttrDec where
  name : String
  code : UInt8
  run : UInt8 → Bytes → Except Err Term            -- model, value already as a term
  specValue : Bytes → Term                          -- what a well-formed value must decode to

def specASPath (v : Bytes) : Term :=
  match Spec.asPathSegs v.length v with
  | some segs =>
    let set := (segs.filter (·.1 = 1)).flatMap (·.2)
    let sq := (segs.filter (·.1 = 2)).flatMap (·.2)
    .app "ASP" [.list (set.map Term.nat), .list (sq.map Term.nat)]
  | none => .atom "?"

def chunk (n : Nat) : Nat → Bytes → List Bytes
  | 0, _ => []
  | fuel + 1, b => if b.length < n ∨ n = 0 then [] else b.take n :: chunk n fuel (b.drop n)

def w32 (b : Bytes) : Nat := match b with | [a, b, c, d] => Spec.n32 a b c d | _ => 0

def attrDecs : List AttrDec :=
  [ ⟨"origin", 1, fun f b => (decodeOrigin f b).map Enc.u8, fun v => Term.nat (v.headD 0).toNat⟩,
    ⟨"aspath", 2, fun f b => (decodeASPath f b).map fun p =>
        .app "ASP" [.list (p.asSet.map (Term.nat ·.toNat)), .list (p.asSequence.map (Term.nat ·.toNat))], specASPath⟩,
    ⟨"nexthop", 3, fun f b => (decodeNextHop f b).map Term.bytes, Term.bytes⟩,
    ⟨"med", 4, fun f b => (decodeMED f b).map fun v => Term.nat (w32 v), fun v => Term.nat (w32 v)⟩,
    ⟨"localpref", 5, fun f b => (decodeLocalPref f b).map fun v => Term.nat (w32 v), fun v => Term.nat (w32 v)⟩,
    ⟨"atomicagg", 6, fun f b => (decodeAtomicAggregate f b).map Term.bool, fun _ => Term.bool true⟩,
    ⟨"aggregator", 7, fun f b => (decodeAggregator f b).map fun (a, ip) => .app "AG" [Term.nat a.toNat, Term.bytes ip],
        fun v => .app "AG" [Term.nat (w32 (v.take 4)), Term.bytes (v.drop 4)]⟩,
    ⟨"communities", 8, fun f b => (decodeCommunities f b).map fun l => .list (l.map (Term.nat ·.toNat)),
        fun v => .list ((chunk 4 v.length v).map fun c => Term.nat (w32 c))⟩,
    ⟨"originatorid", 9, fun f b => (decodeOriginatorID f b).map Term.bytes, Term.bytes⟩,
    ⟨"clusterlist", 10, fun f b => (decodeClusterList f b).map fun l => .list (l.map Term.bytes),
        fun v => .list ((chunk 4 v.length v).map Term.bytes)⟩,
    ⟨"largecomm", 32, fun f b => (decodeLargeCommunities f b).map fun l =>
          .list (l.map fun (a, b, c) => .app "LC" [Term.nat a.toNat, Term.nat b.toNat, Term.nat c.toNat]),
        fun v => .list ((chunk 12 v.length v).map fun c =>
          .app "LC" [Term.nat (w32 (c.take 4)), Term.nat (w32 ((c.drop 4).take 4)), Term.nat (w32 (c.drop 8))])⟩ ]

def attrOracleWith (outs : List Spec.AttrOutcome) (d : AttrDec) (v : Bytes) (impl : Term) : Oracle :=
  match impl with
  | .app "ok" [val] =>
    if !outs.contains .ok then
      .fail s!"C18 {d.name}: accepted although flags or value violate the attribute's RFC rule"
    else if val != d.specValue v then .fail s!"C18 {d.name}: decoded value is not exactly the encoded one"
    else .ok
  | .app "err" [e] =>
    let cls : Option (Spec.Approach × Option Notif) :=
      match e with
      | .app "W" [_, n] => some (.withdraw, (Dec.optNotif n).join)
      | .app "D" [_, n] => some (.discard, (Dec.optNotif n).join)
      | _ => none
    (match cls with
     | none => .fail s!"C18 {d.name}: failure must be treat-as-withdraw or attribute-discard"
     | some (ap, n) =>
       if outs.contains .ok then .fail s!"C18 {d.name}: rejected although flags and value satisfy the attribute's RFC rule"
       else match n with
         | none => .fail s!"C18 {d.name}: failure carries no fallback NOTIFICATION"
         | some n =>
           if n.code != 3 then .fail s!"C18 {d.name}: fallback NOTIFICATION must be UPDATE Message Error"
           else if !outs.contains (.fail ap n.sub.toNat) then
             .fail s!"C18 {d.name}: wrong approach or subcode for this fault (RFC 7606 / RFC 4271)"
           else .ok)
  | .atom "PANIC" => .fail "C05 decoder panicked"
  | _ => .fail "unparseable result"

/-- Known finding (DESIGN section 10, item 11): ATOMIC_AGGREGATE is validated as if it were an
Optional attribute. A failure that is *exactly* explained by the RFC table with that one entry
changed is tagged so that it can be matched against known_findings.jsonl; any other deviation of
the same decoder keeps an untagged clause and is reported. -/
def attrOracle (d : AttrDec) (flags : UInt8) (v : Bytes) (impl : Term) : Oracle :=
  match attrOracleWith (Spec.attrOutcomes d.code flags v) d v impl with
  | .fail c =>
    if d.code = 6 then
      let o := flags.toNat / 128 % 2 = 1
      let t := flags.toNat / 64 % 2 = 1
      let alt : List Spec.AttrOutcome :=
        if !o ∨ !t then [.fail .withdraw 4] else if v.length ≠ 0 then [.fail .discard 5] else [.ok]
      match attrOracleWith alt d v impl with
      | .ok => .fail ("[finding:atomicagg-optional-bit] " ++ c)
      | _ => .fail c
    else .fail c
  | o => o

def hAttr (d : AttrDec) : Handler
  | [f, v], impl => do
    let f ← Dec.u8 f
    let v ← Term.asBytes v
    let r := d.run f v
    let m := match r with
      | .ok t => Term.app "ok" [t]
      | .error e => .app "err" [Enc.err e]
    let br := match r with
      | .ok _ => "ok." ++ lenClass v.length
      | .error (.taw _ (some n)) => s!"W{n.sub}"
      | .error (.discard _ (some n)) => s!"D{n.sub}"
      | .error _ => "err"
    pure ⟨m, attrOracle d f v impl, br⟩
  | _, _ => none

def hFlags : Handler
  | [f], impl => do
    let f ← Dec.u8 f
    let m := Term.app "F" [Term.bool (flagOptional f), Term.bool (flagTransitive f), Term.bool (flagPartial f), Term.bool (flagExtendedLen f)]
    let bit (k : Nat) := Term.bool (f.toNat / 2 ^ k % 2 = 1)
    let o := if impl == Term.app "F" [bit 7, bit 6, bit 5, bit 4] then Oracle.ok else .fail "C18 flag accessors report the four high bits"
    pure ⟨m, o, "flags"⟩
  | _, _ => none

/-! ### prefixes -/

def specPfxTerm (ipv6 : Bool) (p : Spec.Pfx) : Term :=
  let width := if ipv6 then 16 else 4
  let addr := p.addr ++ List.replicate (width - p.addr.length) 0
  match p.id with
  | some i => .app "AP" [Term.nat i, Term.nat p.bits, Term.bytes addr]
  | none => .app "P" [Term.nat p.bits, Term.bytes addr]

def modelPfxs (ipv6 addPath : Bool) (b : Bytes) : Option Term :=
  if addPath then (decodeAddPathPrefixes b ipv6).map fun l => .list (l.map Enc.appfx)
  else (decodePrefixes b ipv6).map fun l => .list (l.map Enc.pfx)

def hPfx : Handler
  | [v6, ap, b], impl => do
    let v6 ← Term.asBool v6
    let ap ← Term.asBool ap
    let b ← Term.asBytes b
    let r := modelPfxs v6 ap b
    let m := match r with | some t => Term.app "ok" [t] | none => .atom "err"
    let o := match Spec.parsePrefixField v6 ap b with
      | some ps => if impl == Term.app "ok" [.list (ps.map (specPfxTerm v6))] then Oracle.ok
                   else .fail "C19 prefix list must decode to exactly the encoded (path id,) length and address bits"
      | none => if impl == Term.atom "err" then .ok
                else if impl == Term.atom "PANIC" then .fail "C05 decoder panicked"
                else .fail "C19 a length octet above 32/128 or a field ending inside an entry must be rejected"
    pure ⟨m, o, (if r.isSome then "ok" else "err") ++ lenClass b.length⟩
  | _, _ => none

/-- `NewNLRI(AddPath)DecodeFn` / `NewWithdrawn(AddPath)RoutesDecodeFn` with a recording closure -/
def hPfxFn : Handler
  | [kind, ap, b], impl => do
    let ap ← Term.asBool ap
    let b ← Term.asBytes b
    let isNlri := kind == Term.atom "nlri"
    let sub : UInt8 := if isNlri then Gen.NOTIF_SUBCODE_INVALID_NETWORK_FIELD else 0
    let r := modelPfxs false ap b
    let m := match r with
      | some t => Term.app "called" [t]
      | none => .app "err" [Enc.notif ⟨Gen.NOTIF_CODE_UPDATE_MESSAGE_ERR, sub, []⟩]
    let o := match Spec.parsePrefixField false ap b with
      | some ps => if impl == Term.app "called" [.list (ps.map (specPfxTerm false))] then Oracle.ok
                   else .fail "C19 wrapper must hand the closure exactly the encoded routes"
      | none =>
        let want : Nat := if isNlri then 10 else 0
        (match impl with
         | .app "err" [n] =>
           (match Dec.notif n with
            | some n => if n.code == 3 && n.sub.toNat == want then .ok
                        else .fail "C19 failure must carry (3,10) for NLRI and UPDATE Message Error for withdrawn routes"
            | none => .fail "C19 failure must be a NOTIFICATION")
         | _ => .fail "C19 malformed field must be rejected")
    pure ⟨m, o, (if r.isSome then "ok" else "err")⟩
  | _, _ => none

/-- `pfxseq kind ap [b₁,…,bₙ]`: one long-lived decode function is applied to b₁ … bₙ in turn and every
delivered slice is read only after the last call. Each result must still be what the decoder of that
input alone prescribes (exactness over histories: a later call must not change an earlier result). -/
def hPfxSeq : Handler
  | [kind, ap, bs], impl => do
    let apB ← Term.asBool ap
    let bs ← Term.asList bs
    let impls ← Term.asList impl
    if impls.length != bs.length then
      return ⟨.atom "length-mismatch", .fail "C19 one result per call", "seq"⟩
    let vs ← (bs.zip impls).mapM fun (b, i) => hPfxFn [kind, ap, b] i
    let _ := apB
    let m := Term.list (vs.map (·.model))
    let o := match vs.find? fun v => match v.oracle with | .fail _ => true | _ => false with
      | some v => (match v.oracle with
          | .fail c => Oracle.fail (c ++ " — also after later calls of the same decode function")
          | x => x)
      | none => .ok
    pure ⟨m, o, s!"seq/n{min bs.length 6}"⟩
  | _, _ => none

def hMp6Nh : Handler
  | [b], impl => do
    let b ← Term.asBytes b
    let m := match decodeMPReachIPv6NextHops b with
      | .ok l => Term.app "ok" [.list (l.map Term.bytes)]
      | .error e => .app "err" [Enc.err e]
    let o := if b.length = 16 then (if impl == Term.app "ok" [.list [Term.bytes b]] then Oracle.ok else .fail "C19 IPv6 next hop of 16 bytes")
      else if b.length = 32 then (if impl == Term.app "ok" [.list [Term.bytes (b.take 16), Term.bytes (b.drop 16)]] then .ok else .fail "C19 IPv6 next hops of 32 bytes")
      else (match impl with
            | .app "err" [n] => (match Dec.notif n with
                                 | some n => if n.code == 3 then .ok else .fail "C19 bad next-hop length must be UPDATE Message Error"
                                 | none => .fail "C19 bad next-hop length must be a session-reset-class error")
            | _ => .fail "C19 IPv6 next hop must be 16 or 32 bytes")
    pure ⟨m, o, lenClass b.length⟩
  | _, _ => none

def hMp6Pfx : Handler
  | [ap, b], impl => do
    let ap ← Term.asBool ap
    let b ← Term.asBytes b
    let r := modelPfxs true ap b
    let m := match r with
      | some t => Term.app "ok" [t]
      | none => .app "err" [Enc.notif genericUpdateNotif]
    let o := match Spec.parsePrefixField true ap b with
      | some ps => if impl == Term.app "ok" [.list (ps.map (specPfxTerm true))] then Oracle.ok
                   else .fail "C19 IPv6 prefix list must decode exactly"
      | none => (match impl with
                 | .app "err" [n] => (match Dec.notif n with
                                      | some n => if n.code == 3 then .ok else .fail "C19 MP field failure must be UPDATE Message Error"
                                      | none => .fail "C19 MP field failure must be a NOTIFICATION")
                 | _ => .fail "C19 malformed IPv6 prefix field must be rejected")
    pure ⟨m, o, (if r.isSome then "ok" else "err")⟩
  | _, _ => none

/-! ### MP splitters -/

def flagOK (f : UInt8) : Bool := f.toNat / 128 % 2 = 1 && f.toNat / 64 % 2 = 0

def hMpReach : Handler
  | [f, v, fnret], impl => do
    let f ← Dec.u8 f
    let v ← Term.asBytes v
    let fr ← Dec.optErr fnret
    let m := match mpReach f v (fun _ => fr) with
      | .ok (args, e) =>
        Term.app "R" [match args with
                      | some a => .app "called" [Term.nat a.afi.toNat, Enc.u8 a.safi, Term.bytes a.nh, Term.bytes a.nlri]
                      | none => .atom "nocall", Enc.optErr e]
      | _ => .atom "PANIC"
    let o := match impl with
      | .app "R" [c, e] =>
        (match Spec.splitMPReach v with
         | some (afi, safi, nh, nlri) =>
           if c != Term.app "called" [Term.nat afi, Enc.u8 safi, Term.bytes nh, Term.bytes nlri] then
             .fail "C19 MP_REACH splitter must pass exactly AFI, SAFI, next hop and NLRI as delimited by the next-hop length octet"
           else if flagOK f && fr.isNone && e != Term.atom "nil" then .fail "C19 MP_REACH: no fault, yet an error"
           else if !flagOK f && strongest e != .withdraw && fr.isNone then .fail "C18/C19 MP_REACH flag conflict must be treat-as-withdraw"
           else .ok
         | none =>
           if c != Term.atom "nocall" then .fail "C19 MP_REACH too short: closure must not be called"
           else if strongest e != .notification then .fail "C19 MP_REACH too short must be a session-reset-class error"
           else (match (leavesOf e).find? (·.1 == .notification) with
                 | some (_, n) => if n.code == 3 && n.sub == 5 then .ok else .fail "C19 MP_REACH too short must carry (3,5)"
                 | none => .fail "C19 MP_REACH too short must carry a NOTIFICATION"))
      | .atom "PANIC" => .fail "C05 decoder panicked"
      | _ => .fail "unparseable result"
    pure ⟨m, o, s!"nh{lenClass (v.getD 3 0).toNat}.{if (Spec.splitMPReach v).isSome then "ok" else "short"}.{if flagOK f then "f" else "badf"}"⟩
  | _, _ => none

def hMpUnreach : Handler
  | [f, v, fnret], impl => do
    let f ← Dec.u8 f
    let v ← Term.asBytes v
    let fr ← Dec.optErr fnret
    let (args, e) := mpUnreach f v (fun _ => fr)
    let m := Term.app "R" [match args with
                           | some a => .app "called" [Term.nat a.afi.toNat, Enc.u8 a.safi, Term.bytes a.withdrawn]
                           | none => .atom "nocall", Enc.optErr e]
    let o := match impl with
      | .app "R" [c, e] =>
        (match Spec.splitMPUnreach v with
         | some (afi, safi, w) =>
           if c != Term.app "called" [Term.nat afi, Enc.u8 safi, Term.bytes w] then
             .fail "C19 MP_UNREACH splitter must pass exactly AFI, SAFI and the withdrawn field"
           else if flagOK f && fr.isNone && e != Term.atom "nil" then .fail "C19 MP_UNREACH: no fault, yet an error"
           else if !flagOK f && strongest e != .withdraw && fr.isNone then .fail "C18/C19 MP_UNREACH flag conflict must be treat-as-withdraw"
           else .ok
         | none =>
           if c != Term.atom "nocall" then .fail "C19 MP_UNREACH too short: closure must not be called"
           else if strongest e != .notification then .fail "C19 MP_UNREACH too short must be a session-reset-class error"
           else .ok)
      | .atom "PANIC" => .fail "C05 decoder panicked"
      | _ => .fail "unparseable result"
    pure ⟨m, o, s!"{if (Spec.splitMPUnreach v).isSome then "ok" else "short"}.{if flagOK f then "f" else "badf"}"⟩
  | _, _ => none

/-! ### UpdateDecoder.Decode and UpdateNotificationFromErr -/

/-- callback script: `[S(slot,tree),…]`, slot `wr` | `nlri` | `a<k>` (k-th attribute callback) -/
def parseScript (t : Term) : Option (List (String × Err)) :=
  (Term.asList t).bind fun l => l.mapM fun
    | .app "S" [.atom slot, e] => (Dec.err e).map fun e => (slot, e)
    | _ => none

def scriptCb (script : List (String × Err)) : Callbacks := fun hist c =>
  match c with
  | .wr _ => script.lookup "wr"
  | .nlri _ => script.lookup "nlri"
  | .attr _ _ _ =>
    let k := (hist.filter fun h => match h with | .attr _ _ _ => true | _ => false).length
    script.lookup s!"a{k}"

def specCallTerm : Spec.Call → Term
  | .wr b => .app "wr" [Term.bytes b]
  | .attr c f b => .app "a" [Enc.u8 c, Enc.u8 f, Term.bytes b]
  | .nlri b => .app "nlri" [Term.bytes b]

def slotOfCall (calls : List Term) (i : Nat) : String :=
  match calls[i]? with
  | some (.app "wr" _) => "wr"
  | some (.app "nlri" _) => "nlri"
  | some (.app "a" _) =>
    let k := ((calls.take i).filter fun c => match c with | .app "a" _ => true | _ => false).length
    s!"a{k}"
  | _ => "?"

/-- does `needles` occur in `hay` as substrings, in order? -/
def occursInOrder (hay : String) (needles : List String) : Bool :=
  let rec go (rest : String) : List String → Bool
    | [] => true
    | n :: ns =>
      match rest.splitOn n with
      | _ :: tl@(_ :: _) => go (n.intercalate tl) ns
      | _ => false
  go hay needles

def updOracle (b : Bytes) (script : List (String × Err)) (impl : Term) : Oracle :=
  match impl with
  | .app "D" [.list calls, ret, fromErr] =>
    let nilCalls := (Spec.expectedCallsNil b).map specCallTerm
    -- the errors the script returned, in call order, and the first one containing a Notification
    let returned : List (Nat × Err) := (List.range calls.length).filterMap fun i =>
      (script.lookup (slotOfCall calls i)).map fun e => (i, e)
    let stopAt : Option Nat := (returned.find? fun (_, e) => e.hasNotif).map (·.1)
    let expectedCalls := match stopAt with
      | some i => nilCalls.take (i + 1)
      | none => nilCalls
    if calls != expectedCalls then
      .fail "C16 callbacks must receive exactly the byte ranges the length fields delimit, in wire order"
    else
      let v := Spec.verdictNil b
      let structural : Spec.Class := if stopAt.isSome then .none_ else v.cls
      let cbClass := returned.foldl (fun m (_, e) =>
        let c := strongest (Enc.err e); if c.rank > m.rank then c else m) Spec.Class.none_
      let want := if cbClass.rank > structural.rank then cbClass else structural
      let isNil := ret == Term.atom "nil"
      if returned.isEmpty && structural == .none_ then
        (if isNil && fromErr == Term.atom "nil" then .ok else .fail "C17 consistent UPDATE with nil callbacks must return nil")
      else if isNil then .fail "C17 Decode returned nil for an UPDATE that is inconsistent, lacks mandatory attributes, or whose callback failed"
      else if !occursInOrder ret.toStr (returned.map fun (_, e) => (Enc.err e).toStr) then
        .fail "C17 returned tree must contain every callback error up to the stopping point, in order"
      else if strongest ret != want && !(want == .none_) then
        .fail "C17 strongest element of the returned tree has the wrong RFC 7606 class"
      else
        -- UpdateNotificationFromErr of the returned tree
        let chosen := Spec.chooseNotif (leavesOf ret)
        if fromErr != Enc.notif chosen then .fail "C17 UpdateNotificationFromErr must pick the earliest element of the highest class"
        else if returned.isEmpty then
          (match v.notif with
           | some t => if notifTriple chosen == t then .ok else .fail "C17 fallback NOTIFICATION does not match the structural fault (code, subcode, data)"
           | none => .ok)
        else .ok
  | .atom "PANIC" => .fail "C05 decoder panicked"
  | _ => .fail "unparseable result"

def hUpd : Handler
  | [b, script], impl => do
    let b ← Term.asBytes b
    let script ← parseScript script
    let (m, br) := match decodeUpdate (scriptCb script) b with
      | .ok (calls, e) =>
        (Term.app "D" [.list (calls.map Enc.call), Enc.optErr e,
                       match updateNotificationFromErr e with | some n => Enc.notif n | none => .atom "nil"],
         s!"c{min calls.length 5}." ++ (match e with | none => "nil" | some e => toString (repr (strongest (Enc.err e)))) ++
           (if script.isEmpty then "" else ".scripted"))
      | _ => (.atom "PANIC", "panic")
    pure ⟨m, updOracle b script impl, br⟩
  | _, _ => none

/-- `updseq [P(b₁,script₁),…]`: one long-lived `UpdateDecoder` decodes b₁ … bₙ in turn; the result of every
message must be what that message alone prescribes (no state of an earlier `Decode` may reach a later one) -/
def hUpdSeq : Handler
  | [ps], impl => do
    let ps ← Term.asList ps
    let impls ← Term.asList impl
    if impls.length != ps.length then
      return ⟨.atom "length-mismatch", .fail "C16 one result per message", "updseq"⟩
    let vs ← (ps.zip impls).mapM fun (p, i) =>
      match p with
      | .app "P" [b, sc] => hUpd [b, sc] i
      | _ => none
    let m := Term.list (vs.map (·.model))
    let o := match vs.find? fun v => match v.oracle with | .fail _ => true | _ => false with
      | some v => (match v.oracle with
          | .fail c => Oracle.fail (c ++ " — on a later message of the same decoder")
          | x => x)
      | none => .ok
    pure ⟨m, o, s!"updseq/n{min ps.length 5}/" ++ ((vs.head?.map (·.branch)).getD "")⟩
  | _, _ => none

def hFromErr : Handler
  | [t], impl => do
    let e ← Dec.optErr t
    let m := match updateNotificationFromErr e with | some n => Enc.notif n | none => Term.atom "nil"
    let o := match e with
      | none => if impl == Term.atom "nil" then Oracle.ok else .fail "C17 UpdateNotificationFromErr(nil) must be nil"
      | some _ => if impl == Enc.notif (Spec.chooseNotif (leavesOf t)) then .ok
                  else .fail "C17 UpdateNotificationFromErr must pick the earliest element of the highest class"
    pure ⟨m, o, toString (repr (strongest t))⟩
  | _, _ => none

/-- `bitmap sets queries` => one byte per query: `attrsBitmap.set` for every code, then `isSet` -/
def hBitmap : Handler
  | [sets, qs], impl => do
    let sets ← Term.asBytes sets
    let qs ← Term.asBytes qs
    let a := sets.foldl Bitmap.set Bitmap.empty
    let m := Term.bytes (qs.map fun q => if a.isSet q then 1 else 0)
    -- oracle: the bitmap is a set of type codes
    let want := Term.bytes (qs.map fun q => if sets.contains q then 1 else 0)
    let o := if impl == want then Oracle.ok else .fail "C16 the seen-attribute bitmap must answer exactly set membership of the type code"
    pure ⟨m, o, s!"n{min sets.length 4}"⟩
  | _, _ => none

def updateHandlers : List (String × Handler) :=
  attrDecs.map (fun d => ("attr." ++ d.name, hAttr d)) ++
  [("flags", hFlags), ("pfx", hPfx), ("pfxfn", hPfxFn), ("pfxseq", hPfxSeq), ("mp6nh", hMp6Nh), ("mp6pfx", hMp6Pfx),
   ("mpreach", hMpReach), ("mpunreach", hMpUnreach), ("upd", hUpd), ("updseq", hUpdSeq), ("fromerr", hFromErr), ("bitmap", hBitmap)]

end Driver
