import Driver.Live
import Driver.L2
/-! Scenario-level driver: L1 per connection, L2 per peer, monitors. -/
namespace Driver
open CoreBGP CoreBGP.Model

/-- all checks of one scenario; returns the failure clauses -/
def checkScenarioCore (evs : List Ev) : List String × Nat := Id.run do
  let mut fails : List String := []
  let mut nconns := 0
  for e in evs do
    if e.ev == "crash" then fails := fails ++ [s!"C05 the process running corebgp died: {e.arg 1}"]
    if e.ev == "race" then fails := fails ++ [s!"C10 data race reported by the Go race detector: {e.arg 0}"]
    if e.ev == "harness.bug" then fails := fails ++ [s!"HARNESS-BUG the scenario script itself panicked: {e.arg 0}"]
    if e.ev == "harness.timeout" then fails := fails ++ [s!"LIVENESS {e.arg 0}"]
    if e.ev == "api.hang" then fails := fails ++ [s!"C10 {e.arg 0} did not return within bounded time"]
    if e.ev == "alias" && e.arg 1 != "0" then fails := fails ++ ["C03 a delivered UPDATE slice was modified after delivery"]
    if e.ev == "goroutines" && e.arg 0 != "0" then fails := fails ++ [s!"C10 {e.arg 0} corebgp goroutines still running after Close returned"]
  let peers := evs.foldl (fun acc e => if e.peer != "-" && !acc.contains e.peer then acc ++ [e.peer] else acc) []
  -- Serve returning (Close, or the listener error that stopped it) ends every peer like Close does
  let closeCall := (evs.find? fun e => e.ev == "api.call" && (e.arg 0 == "Close" || e.arg 0 == "ListenerClose")).map (·.seq)
  let closeRet := (evs.find? fun e => e.ev == "api.ret" && (e.arg 0 == "Close" || e.arg 0 == "Serve")).map (·.seq)
  for e in evs do
    if e.ev == "api.ret" && e.arg 0 == "Serve2" && e.arg 1 != "closed" then
      fails := fails ++ ["C10/C20 Serve on a server that has stopped serving must return ErrServerClosed"]
  for p in peers do
    match cfgOf evs p with
    | none => pure ()
    | some (cfg, _) =>
      let conns := connsOf evs p
      let cbs := callbacksOf evs p
      let segs := segments cbs
      -- a peer that is deleted and added again is a new instance: DeletePeer-based expectations apply to the first only
      let readded := evs.any fun e => e.peer == p && e.ev == "api.ret" && e.arg 0 == "AddPeer2" && e.arg 1 == "ok"
      let delCall := if readded then none else (evs.find? fun e => e.peer == p && e.ev == "api.call" && e.arg 0 == "DeletePeer").map (·.seq)
      let delRet := if readded then none else (evs.find? fun e => e.peer == p && e.ev == "api.ret" && e.arg 0 == "DeletePeer" && e.arg 1 == "ok").map (·.seq)
      let stopCall := match delCall, closeCall with
        | some a, some b => some (min a b) | some a, none => some a | none, b => b
      let stopRet := match delRet, closeRet with
        | some a, some b => some (min a b) | some a, none => some a | none, b => b
      let allowLocal := stopCall.isSome || evs.any fun e => e.peer == p && ((e.ev == "log.t" && e.arg 2 == "disabled") || e.ev == "log.damp")
      nconns := nconns + conns.length
      let tObsEnd := ((evs.find? fun e => e.seq == stopCall.getD 1000000000).map (·.t)).getD ((evs.getLast?.map (·.t)).getD 0)
      let mut triggers : List (Nat × String) := []
      for c in conns do
        let ccbs := cbsForConn segs conns c
        -- was the FSM of this connection free to react for a full second before it was stopped? (everything the remote sent
        -- was sent more than 1 s before the final NOTIFICATION / the stop; no plugin callback of the peer ran in between; the
        -- remote never stopped reading; no schedule point was held)
        let tLastSend := c.sends.foldl (fun m (_, t, _) => max m t) 0
        let tFinal := match ((outboundTimed c).filter fun (_, ty, _) => ty == 3).getLast? with
          | some (t, _, _) => min t tObsEnd | none => tObsEnd
        let busyCb := cbs.any fun cb => cb.tExit ≥ tLastSend && cb.tEnter ≤ tFinal
        let gated := evs.any fun e => e.ev == "pt.reached" || e.ev == "pt.hold"
        let prompt := !c.sends.isEmpty && tFinal > tLastSend + 1000 * ms && !busyCb && c.pauses.isEmpty && !gated
        let v := checkConn cfg c ccbs allowLocal prompt
        fails := fails ++ v.fails.map fun f => s!"{f} [{p} {c.id}]"
        fails := fails ++ (monitorHold cfg c ccbs tObsEnd).map fun f => s!"{f} [{p} {c.id}]"
        -- damping triggers seen on the wire: a NOTIFICATION other than Cease, sent or (consumed) received
        for (t, ty, b) in outboundTimed c do
          if ty == 3 && b.head? != some 6 then triggers := triggers ++ [(t, s!"NOTIFICATION code {(b.headD 0).toNat} sent")]
        match v.rcvdNotif with
        | some (code, t) => if code != 6 then triggers := triggers ++ [(t, s!"NOTIFICATION code {code.toNat} received")]
        | none => pure ()
      fails := fails ++ monitorWriters evs p conns segs
      fails := fails ++ monitorCollision evs cfg conns segs stopCall
      fails := fails ++ monitorPacing evs p
      fails := fails ++ reconnectInclusion evs p
      fails := fails ++ monitorDamping evs p conns triggers
      fails := fails ++ monitorAdmission evs p conns
      -- L2: the peer's projection must be a trace of the manager / FSM transition system
      let started := evs.any fun e => e.ev == "api.call" && e.arg 0 == "Serve"
      if started then
        let ro := conns.findSome? remoteOpenOf
        let dominant := match ro with
          | some o => cfg.localID.toNat > o.bgpID.toNat || (cfg.localID.toNat == o.bgpID.toNat && cfg.localAS.toNat > cfg.remoteAS.toNat)
          | none => true
        let passive := ((evs.find? fun e => e.peer == p && e.ev == "cfg").map (·.arg 6)).getD "0" == "1"
        let (r, _) := includeL2 dominant passive (labelsOf evs p cfg conns segs)
        match r with
        | some why => fails := fails ++ [s!"{why} [{p}]"]
        | none => pure ()
      -- C14: every OPEN on the wire is the one configuration and the capabilities GetCapabilities returned call for
      let expectedOpens : List Bytes := (cbs.filter (·.name == "GetCapabilities")).filterMap fun cb =>
        match (Term.parse (cb.exitArgs.getD 0 "[]")).bind Dec.caps with
        | some caps =>
          let eo := Spec.expectedOpen ⟨cfg.localAS, cfg.localHold, cfg.localID⟩ caps
          if Spec.Representable eo then some (Spec.frame 1 (Spec.openBody eo)) else none
        | none => none
      let mut pool := expectedOpens
      for c in conns do
        match (Spec.parseStream c.outbound).1.head? with
        | some (1, b) =>
          let w := Spec.frame 1 b
          if pool.contains w then pool := pool.erase w
          else fails := fails ++ [s!"C14 the OPEN sent on {c.id} is not what the configuration and the capabilities returned by GetCapabilities for that connection prescribe"]
        | _ => pure ()
      -- C20: the registry is a map: a key cannot be deleted twice without being added in between
      let apiRets := evs.filter fun e => e.peer == p && e.ev == "api.ret" && (e.arg 0 == "DeletePeer" || e.arg 0 == "AddPeer" || e.arg 0 == "AddPeer2" || e.arg 0 == "AddPeerN") && e.arg 1 == "ok"
      -- (the returns of concurrent calls are not logged in the order the calls took effect: judged by counting — for one
      -- key the successful adds and deletes alternate, whatever the order)
      let nAdd := (apiRets.filter fun e => e.arg 0 != "DeletePeer").length
      let nDel := (apiRets.filter fun e => e.arg 0 == "DeletePeer").length
      if nDel > nAdd then
        fails := fails ++ ["C20 more DeletePeer calls of one key succeeded than AddPeer calls (one must return ErrPeerNotExist)"]
      if nAdd > nDel + 1 then
        fails := fails ++ ["C20 two AddPeer calls of the same key both succeeded with no DeletePeer between them (one must return ErrPeerAlreadyExists)"]
      -- C01: GetCapabilities once per OPEN sent, before it; OnOpenMessage at most once per connection
      let nOpens := (conns.filter fun c => match (Spec.parseStream c.outbound).1.head? with | some (1, _) => true | _ => false).length
      let nGetCaps := (cbs.filter (·.name == "GetCapabilities")).length
      if nGetCaps < nOpens then fails := fails ++ [s!"C01 {nOpens} OPENs were sent but GetCapabilities was invoked only {nGetCaps} times"]
      if nGetCaps > conns.length + (evs.filter fun e => e.peer == p && e.ev == "dial").length then
        fails := fails ++ ["C01 GetCapabilities was invoked more often than there were connections"]
      for sg in segs do
        if (sg.filter (·.name == "OnOpenMessage")).length > 1 then fails := fails ++ ["C01 OnOpenMessage was invoked twice on one connection"]
        if (sg.filter (·.name == "GetCapabilities")).length > 1 then fails := fails ++ ["C01 GetCapabilities was invoked twice on one connection"]
      -- C01 / E.6: plugin history language
      let h := histEvents evs p
      if !decide (Spec.WellFormedHistory h) then
        fails := fails ++ [s!"C01 plugin callback history of {p} is not a prefix of (E+ E- (H+ H-)* C+ C-)*"]
      match stopRet with
      | some r =>
        let hBefore := histEvents (evs.filter (·.seq < r)) p
        if !decide (Spec.CompleteHistory hBefore) then
          fails := fails ++ [s!"C01/C10 an OnEstablished of {p} is not matched by an OnClose by the time Close/DeletePeer returned"]
        if evs.any fun e => e.peer == p && e.seq > r && e.ev == "cb.enter" then
          fails := fails ++ [s!"C10 a plugin callback of {p} started after Close/DeletePeer returned"]
        for c in conns do
          if c.ended.isNone && c.remoteClosed.isNone then
            fails := fails ++ [s!"C10 connection {c.id} of {p} is still open after Close/DeletePeer returned"]
      | none => pure ()
      -- C10: Cease on every connection that was in OpenSent or later when the stop was requested
      match stopCall with
      | some sc =>
        for dir in ["out", "in"] do
          let lastT := (evs.filter fun e => e.peer == p && e.ev == "log.t" && e.arg 0 == dir && e.seq < sc).getLast?
          match lastT with
          | some lt =>
            if ["openSent", "openConfirm", "established"].contains (lt.arg 2) then
              -- the connection of that direction that was open at the time of the call
              let cand := (conns.filter fun c => c.isOut == (dir == "out") && c.remoteClosed.isNone &&
                (c.recvs.head?.map (fun r => decide (r.1 < sc))).getD false &&
                !((c.endSeq.map (fun q => decide (q < sc))).getD false)).getLast?
              match cand with
              | some c =>
                -- (a session that was ending on its own account at that moment — the handler / OnOpenMessage about to refuse —
                -- ends with that NOTIFICATION; no Cease is owed on top of it)
                if !sentNotifCode c 6 && !sentAnyNotif c then
                  fails := fails ++ [s!"C10 connection {c.id} of {p} was in {lt.arg 2} when the stop was requested but did not receive a Cease NOTIFICATION before being closed"]
              | none => pure ()
          | none => pure ()
      | none => pure ()
  return (fails, nconns)


/-- A scenario is a bounded script; a trace beyond the harness's bound (`harness.runaway`) is a failure by itself
(unbounded behaviour, e.g. a message flood). The remaining checks then run on a prefix of the trace, so that the
clause that names the behaviour is reported as well without the analysis time growing with the flood. -/
def checkScenario (evs : List Ev) : List String × Nat :=
  match evs.find? (·.ev == "harness.runaway") with
  | none => checkScenarioCore evs
  | some e =>
    -- prefix: at most 3000 events and 300 kB of arguments
    let pre := (evs.foldl (fun (acc : List Ev × Nat × Nat) x =>
      let sz := acc.2.2 + (x.args.foldl (fun n a => n + a.length) 0)
      if acc.2.1 ≥ 3000 || sz > 300000 then (acc.1, 3000, sz) else (x :: acc.1, acc.2.1 + 1, sz)) ([], 0, 0)).1.reverse
    let (fs, n) := checkScenarioCore pre
    (s!"C05 runaway behaviour: a bounded scenario produced a trace beyond the harness bound of 30000 events / 6 MB (flood of `{e.arg 0}` events)" :: fs, n)

partial def loopLive (hin hout : IO.FS.Stream) (spec : String) (evs : Array Ev) : IO Unit := do
  let line ← hin.getLine
  if line.isEmpty then return ()
  let t := (line.dropEndWhile (· == (Char.ofNat 10))).toString
  if t.startsWith "# scenario " then
    loopLive hin hout (t.drop 11).toString #[]
  else if t.startsWith "# end" then
    let (fails, nconns) := checkScenario evs.toList
    let fam := (spec.splitOn ":").headD ""
    if fails.isEmpty then
      hout.putStrLn s!"S {spec} ok events={evs.size} conns={nconns} branch=live/{fam}"
    else
      for f in fails.eraseDups do
        hout.putStrLn s!"S {spec} FAIL {f}"
    loopLive hin hout "" #[]
  else
    match parseEv t with
    | some e => loopLive hin hout spec (evs.push e)
    | none => loopLive hin hout spec evs

end Driver
