import CoreBGP.Model.Go
/-!
# Terms: the canonical value syntax shared by the Go harness and the Lean driver

`term := atom | atom '(' term,* ')' | '[' term,* ']'`, atoms over `[A-Za-z0-9_.:/+-]`,
no blanks. Bytes are lower-case hex, `-` for the empty string. (DESIGN appendix G.)
-/
namespace Driver
open CoreBGP

inductive Term where
  | atom (s : String)
  | app (f : String) (args : List Term)
  | list (xs : List Term)
deriving Inhabited, BEq, Repr

namespace Term

partial def toStr : Term → String
  | .atom s => s
  | .app f args => f ++ "(" ++ ",".intercalate (args.map toStr) ++ ")"
  | .list xs => "[" ++ ",".intercalate (xs.map toStr) ++ "]"

instance : ToString Term := ⟨toStr⟩

def isAtomChar (c : Char) : Bool :=
  c.isAlphanum || c == '_' || c == '.' || c == ':' || c == '/' || c == '-' || c == '+'

/-- recursive-descent parser over a character array with an index -/
partial def parseAt (s : Array Char) (i : Nat) : Option (Term × Nat) :=
  if h : i < s.size then
    let c := s[i]
    if c == '[' then
      parseList s (i + 1) ']' #[] |>.map fun (xs, j) => (.list xs.toList, j)
    else if isAtomChar c then
      let rec scan (j : Nat) : Nat :=
        if h : j < s.size then (if isAtomChar s[j] then scan (j + 1) else j) else j
      let j := scan i
      let name := String.ofList (s.extract i j).toList
      if h2 : j < s.size then
        if s[j] == '(' then
          parseList s (j + 1) ')' #[] |>.map fun (xs, k) => (.app name xs.toList, k)
        else some (.atom name, j)
      else some (.atom name, j)
    else none
  else none
where
  parseList (s : Array Char) (i : Nat) (close : Char) (acc : Array Term) : Option (Array Term × Nat) :=
    if h : i < s.size then
      if s[i] == close then some (acc, i + 1)
      else
        match parseAt s i with
        | none => none
        | some (t, j) =>
          if h2 : j < s.size then
            if s[j] == ',' then parseList s (j + 1) close (acc.push t)
            else if s[j] == close then some (acc.push t, j + 1)
            else none
          else none
    else none

def parse (str : String) : Option Term :=
  let s := str.toList.toArray
  match parseAt s 0 with
  | some (t, j) => if j == s.size then some t else none
  | none => none

/-! ### atoms -/

def hexDigit (n : Nat) : Char :=
  if n < 10 then Char.ofNat (48 + n) else Char.ofNat (87 + n)

def hexOf (b : Bytes) : String :=
  if b.isEmpty then "-" else
  String.ofList (b.flatMap fun x => [hexDigit (x.toNat / 16), hexDigit (x.toNat % 16)])

def hexVal (c : Char) : Option Nat :=
  if '0' ≤ c ∧ c ≤ '9' then some (c.toNat - 48)
  else if 'a' ≤ c ∧ c ≤ 'f' then some (c.toNat - 87)
  else none

def bytesOfHex (s : String) : Option Bytes :=
  if s == "-" then some [] else
  let rec go : List Char → Option Bytes
    | [] => some []
    | a :: b :: rest => do
      let x ← hexVal a
      let y ← hexVal b
      let r ← go rest
      pure (UInt8.ofNat (x * 16 + y) :: r)
    | _ => none
  go s.toList

def bytes (b : Bytes) : Term := .atom (hexOf b)
def nat (n : Nat) : Term := .atom (toString n)
def bool (b : Bool) : Term := .atom (if b then "1" else "0")

def asBytes : Term → Option Bytes
  | .atom s => bytesOfHex s
  | _ => none

def asNat : Term → Option Nat
  | .atom s => s.toNat?
  | _ => none

def asBool : Term → Option Bool
  | .atom "1" => some true
  | .atom "0" => some false
  | _ => none

def asList : Term → Option (List Term)
  | .list xs => some xs
  | _ => none

end Term
end Driver
