import Driver.Term
import CoreBGP.Model.Packet
import CoreBGP.Model.Reader
import CoreBGP.Spec.Wire
/-!
# L0 driver: packet codecs

For each harness line `fn args… => impl-result` compute the model's result (correspondence)
and evaluate the specification on the implementation's own result (oracle).
-/
namespace Driver
open CoreBGP CoreBGP.Model

/-- verdict of the oracle on the implementation's result -/
inductive Oracle where
  | ok | na | fail (clause : String)

def Oracle.toStr : Oracle → String
  | .ok => "ok" | .na => "na" | .fail c => "FAIL:" ++ c

structure Verdict where
  model : Term
  oracle : Oracle
  branch : String

abbrev Handler := List Term → Term → Option Verdict

namespace Enc
open Term

def u8 (x : UInt8) : Term := nat x.toNat
def notif (n : Notif) : Term := .app "N" [u8 n.code, u8 n.sub, bytes n.data]
def cap (c : Cap) : Term := .app "C" [u8 c.code, bytes c.value]
def caps (cs : List Cap) : Term := .list (cs.map cap)
def openMsg (o : OpenMsg) : Term :=
  .app "O" [u8 o.version, nat o.asn.toNat, nat o.holdTime.toNat, nat o.bgpID.toNat,
            .list (o.params.map caps)]
def perr : PErr → Term
  | .notif n out => .app "NE" [bool out, notif n]
  | .plain => .atom "plain"
def res {α} (f : α → Term) : PRes α → Term
  | .ok a => .app "ok" [f a]
  | .err e => .app "err" [perr e]
  | .panic => .atom "PANIC"
def tuple (t : AddPathTuple) : Term := .app "T" [nat t.afi.toNat, u8 t.safi, bool t.tx, bool t.rx]
end Enc

namespace Dec
open Term

def u8 (t : Term) : Option UInt8 := (asNat t).bind fun n => if n < 256 then some (UInt8.ofNat n) else none
def u16 (t : Term) : Option UInt16 := (asNat t).bind fun n => if n < 65536 then some (UInt16.ofNat n) else none
def u32 (t : Term) : Option UInt32 := (asNat t).bind fun n => if n < 4294967296 then some (UInt32.ofNat n) else none
def notif : Term → Option Notif
  | .app "N" [c, s, d] => do pure ⟨← u8 c, ← u8 s, ← asBytes d⟩
  | _ => none
def cap : Term → Option Cap
  | .app "C" [c, v] => do pure ⟨← u8 c, ← asBytes v⟩
  | _ => none
def caps (t : Term) : Option (List Cap) := (asList t).bind (·.mapM cap)
def openMsg : Term → Option OpenMsg
  | .app "O" [v, a, h, i, ps] => do
    let pl ← asList ps
    pure ⟨← u8 v, ← u16 a, ← u16 h, ← u32 i, ← pl.mapM caps⟩
  | _ => none
def tuple : Term → Option AddPathTuple
  | .app "T" [a, s, tx, rx] => do pure ⟨← u16 a, ← u8 s, ← asBool tx, ← asBool rx⟩
  | _ => none
end Dec

def lenClass (n : Nat) : String :=
  if n = 0 then "0" else if n = 1 then "1" else if n < 16 then "s" else if n < 256 then "m"
  else if n < 4078 then "l" else "xl"

/-- does the (code, subcode) of an implementation-side `NE(out,N(c,s,d))` lie in `fs`? -/
def notifIn (t : Term) (fs : List (Nat × Nat)) : Bool :=
  match t with
  | .app "NE" [_, n] =>
    match Dec.notif n with
    | some n => fs.contains (n.code.toNat, n.sub.toNat)
    | none => false
  | _ => false

/-! ### handlers -/

def hHdr : Handler
  | [b, t], impl => do
    let b ← Term.asBytes b
    let t ← Dec.u8 t
    let m := Term.bytes (prependHeader b t)
    let o := if b.length ≤ 4077 then
        (if impl == Term.bytes (Spec.frame t b) then Oracle.ok else .fail "C04/C08 header: marker, true length, type, body")
      else .na
    pure ⟨m, o, "len" ++ lenClass b.length⟩
  | _, _ => none

def hKa : Handler
  | [], impl =>
    let m := Term.bytes (prependHeader [] (UInt8.ofNat Gen.keepAliveMessageType))
    some ⟨m, if impl == Term.bytes (Spec.frame 4 []) then .ok else .fail "KEEPALIVE is a bare header of type 4", "ka"⟩
  | _, _ => none

def hNotifEnc : Handler
  | [c, s, d], impl => do
    let n : Notif := ⟨← Dec.u8 c, ← Dec.u8 s, ← Term.asBytes d⟩
    let m := Term.app "ok" [Term.bytes (encodeNotif n)]
    let o := if n.data.length ≤ 4075 then
        (if impl == Term.app "ok" [Term.bytes (Spec.frame 3 (Spec.notifBody n))] then Oracle.ok
         else .fail "C15/C08 NOTIFICATION reaches the wire with exactly its code, subcode and data")
      else .na
    pure ⟨m, o, "data" ++ lenClass n.data.length⟩
  | _, _ => none

def hNotifDec : Handler
  | [b], impl => do
    let b ← Term.asBytes b
    let m := Enc.res Enc.notif (decodeNotif b)
    let o := match Spec.parseNotif b with
      | some n => if impl == Term.app "ok" [Enc.notif n] then Oracle.ok else .fail "C15 NOTIFICATION decode is the inverse of encode"
      | none => (match impl with
                 | .app "err" _ => .ok
                 | _ => .fail "C15 NOTIFICATION shorter than its fixed fields must be rejected")
    pure ⟨m, o, "len" ++ lenClass b.length⟩
  | _, _ => none

def hOpenDec : Handler
  | [b], impl => do
    let b ← Term.asBytes b
    let r := decodeOpen b
    let m := match r with
      | .ok o => Term.app "ok" [Enc.openMsg o, Enc.caps (openCaps o)]
      | .err e => .app "err" [Enc.perr e]
      | .panic => .atom "PANIC"
    let o := match Spec.parseOpen b with
      | some o =>
        if impl == Term.app "ok" [Enc.openMsg o, Enc.caps (Spec.caps o)] then Oracle.ok
        else .fail "C02/C15 well-formed OPEN must decode to exactly its fields and capabilities"
      | none =>
        (match impl with
         | .app "err" [e] =>
           if notifIn e (Spec.openStructFaults b) then Oracle.ok
           else .fail "C02 malformed OPEN must be refused with a NOTIFICATION naming a fault present"
         | .atom "PANIC" => .fail "C05 decoder panicked"
         | _ => .fail "C02/C15 malformed OPEN accepted")
    let br := match r with
      | .ok o => s!"ok.p{min o.params.length 3}.c{min (openCaps o).length 4}"
      | .err (.notif n _) => s!"err.{n.code}.{n.sub}"
      | .err .plain => "err.plain"
      | .panic => "panic"
    pure ⟨m, o, br⟩
  | _, _ => none

def hOpenVal : Handler
  | [b, lid, las, ras], impl => do
    let b ← Term.asBytes b
    let lid ← Dec.u32 lid
    let las ← Dec.u32 las
    let ras ← Dec.u32 ras
    let (m, br) := match decodeOpen b with
      | .ok o =>
        (match validateOpen o lid las ras with
         | none => (Term.atom "nil", "accept")
         | some n => (Term.app "err" [Enc.perr (.notif n true)], s!"refuse.{n.code}.{n.sub}"))
      | _ => (Term.atom "undecodable", "undecodable")
    let o := match Spec.parseOpen b with
      | none => Oracle.na
      | some o =>
        let fs := Spec.openSemFaults o ⟨lid, las, ras⟩
        (match impl with
         | .atom "nil" => if fs.isEmpty then .ok else .fail "C02 unacceptable OPEN was accepted"
         | .app "err" [.app "NE" [out, n]] =>
           (match Dec.notif n with
            | some n =>
              if fs.isEmpty then .fail "C02 acceptable OPEN was refused"
              else if out != Term.bool true then .fail "C02 refusal must be sent to the remote"
              else if Spec.faultApplies n fs then .ok
              else .fail "C02 NOTIFICATION does not name a fault present in the OPEN (or carries wrong data)"
            | none => .fail "unparseable result")
         | _ => .fail "C02 unexpected validate result")
    pure ⟨m, o, br⟩
  | _, _ => none

def hOpenNew : Handler
  | [asn, hold, id, cs], impl => do
    let asn ← Dec.u32 asn
    let hold ← Dec.u16 hold
    let id ← Dec.u32 id
    let cs ← Dec.caps cs
    let o := newOpenMessage asn hold id cs
    let m := match encodeOpen o with
      | some b => Term.app "ok" [Term.bytes b]
      | none => Term.atom "err"
    let e := Spec.expectedOpen ⟨asn, hold, id⟩ cs
    let orc := if Spec.Representable e then
        (if impl == Term.app "ok" [Term.bytes (Spec.frame 1 (Spec.openBody e))] then Oracle.ok
         else .fail "C14 OPEN must reflect configuration and plugin capabilities with consistent length octets")
      else
        (match impl with
         | .atom "err" => Oracle.ok
         | _ => .fail "C14 unrepresentable capabilities must not produce an OPEN on the wire")
    let total := (Spec.paramsWire e.params).length
    let br := s!"n{min cs.length 5}.{if decide (Spec.Representable e) then "rep" else "unrep"}.{if asn.toNat > 65535 then "as4" else "as2"}.{if total < 200 then "small" else if total ≤ 255 then "edge" else "over"}"
    pure ⟨m, orc, br⟩
  | _, _ => none

def hOpenEnc : Handler
  | [o], impl => do
    let o ← Dec.openMsg o
    let m := match encodeOpen o with
      | some b => Term.app "ok" [Term.bytes b]
      | none => Term.atom "err"
    let orc := if Spec.Representable o then
        (if impl == Term.app "ok" [Term.bytes (Spec.frame 1 (Spec.openBody o))] then Oracle.ok
         else .fail "C15 representable OPEN must encode to its wire form")
      else .na
    pure ⟨m, orc, s!"p{min o.params.length 3}.{if decide (Spec.Representable o) then "rep" else "unrep"}"⟩
  | _, _ => none

def hAddPathDec : Handler
  | [b], impl => do
    let b ← Term.asBytes b
    let r := decodeAddPathTuples b
    let m := match r with
      | .ok ts => Term.app "ok" [.list (ts.map Enc.tuple)]
      | .err _ => .atom "err"
      | .panic => .atom "PANIC"
    let o := match Spec.parseAddPathCap b with
      | some ts => if impl == Term.app "ok" [.list (ts.map Enc.tuple)] then Oracle.ok
                   else .fail "C15 add-path tuples must decode exactly (send/receive 1-3)"
      | none => if impl == Term.atom "err" then .ok else .fail "C15 invalid add-path capability value must be rejected"
    pure ⟨m, o, (if r.isOk then "ok" else "err") ++ lenClass b.length⟩
  | _, _ => none

def hAddPathEnc : Handler
  | [ts], impl => do
    let ts ← (Term.asList ts).bind (·.mapM Dec.tuple)
    let m := Enc.cap (newAddPathCapability ts)
    let o := match ts.mapM Spec.addPathWire with
      | some ws => if impl == Enc.cap ⟨69, ws.flatten⟩ then Oracle.ok else .fail "C15 add-path capability encoding (RFC 7911)"
      | none => .na
    pure ⟨m, o, s!"n{min ts.length 4}"⟩
  | _, _ => none

def hMpCap : Handler
  | [a, s], impl => do
    let a ← Dec.u16 a
    let s ← Dec.u8 s
    let m := Enc.cap (newMPExtensionsCapability a s)
    let o := if impl == Enc.cap ⟨1, Spec.mpCapWire a s⟩ then Oracle.ok else .fail "C15 MP capability is AFI(2) reserved(1)=0 SAFI(1)"
    pure ⟨m, o, "mp"⟩
  | _, _ => none

/-! ### reader -/

def encMsg : RMsg → Term
  | .open_ o => Enc.openMsg o
  | .update b => .app "U" [Term.bytes b]
  | .notif n => Enc.notif n
  | .keepalive => .atom "K"

def encRErr : RErr → Term
  | .notif n out => .app "NE" [Term.bool out, Enc.notif n]
  | .other => .atom "other"
  | .eof => .atom "other"
  | .panic => .atom "PANIC"

/-- expected reader outcome from the strict stream parser: the decodable prefix and the set of
admissible endings -/
def readOracle (s : Bytes) (impl : Term) : Oracle :=
  let (fs, e) := Spec.parseStream s
  -- walk the framed messages until one whose body does not decode
  let rec go (fs : List (UInt8 × Bytes)) (acc : List Term) : List Term × Option (UInt8 × Bytes) :=
    match fs with
    | [] => (acc.reverse, none)
    | (t, b) :: rest =>
      if t = 1 then
        match Spec.parseOpen b with
        | some o => go rest (Enc.openMsg o :: acc)
        | none => (acc.reverse, some (t, b))
      else if t = 2 then go rest (.app "U" [Term.bytes b] :: acc)
      else if t = 3 then
        match Spec.parseNotif b with
        | some n => go rest (Enc.notif n :: acc)
        | none => (acc.reverse, some (t, b))
      else go rest (.atom "K" :: acc)
  let (msgs, bad) := go fs []
  match impl with
  | .app "R" [.list ims, iend] =>
    if ims != msgs then .fail "C03/C08 every well-formed message before the fault is processed, in order, byte-exact"
    else
      match bad with
      | some (t, b) =>
        if t = 1 then
          (if notifIn iend (Spec.openStructFaults b) then .ok else .fail "C02 malformed OPEN body must yield a NOTIFICATION naming a fault present")
        else (if iend == .atom "other" then .ok else .fail "C09 undecodable NOTIFICATION must end the connection without a reply")
      | none =>
        match e with
        | .clean | .truncated =>
          if iend == .atom "other" then .ok else .fail "C08 a stream ending without a fault must not produce a NOTIFICATION"
        | .fault hf =>
          (match iend with
           | .app "NE" [out, n] =>
             (match Dec.notif n with
              | some n =>
                let okc := hf.any fun f =>
                  f.notif == (n.code.toNat, n.sub.toNat) &&
                  (match f with | .type t => n.data = [t] | _ => true)
                if okc && out == Term.bool true then .ok
                else .fail "C08 header fault must yield the NOTIFICATION RFC 4271 6.1 assigns (type octet as data)"
              | none => .fail "unparseable result")
           | _ => .fail "C08 header fault must yield a NOTIFICATION")
  | .atom "PANIC" => .fail "C05 reader panicked"
  | _ => .fail "unparseable result"

def hRead : Handler
  | [s], impl => do
    let s ← Term.asBytes s
    let (ms, e) := readAll s
    let m := Term.app "R" [.list (ms.map encMsg), encRErr e]
    let br := s!"m{min ms.length 4}." ++ (match e with | .notif n _ => s!"{n.code}.{n.sub}" | .other => "other" | .eof => "eof" | .panic => "panic")
    pure ⟨m, readOracle s impl, br⟩
  | _, _ => none

def packetHandlers : List (String × Handler) :=
  [("hdr", hHdr), ("ka", hKa), ("notif.enc", hNotifEnc), ("notif.dec", hNotifDec),
   ("open.dec", hOpenDec), ("open.val", hOpenVal), ("open.new", hOpenNew), ("open.enc", hOpenEnc),
   ("addpath.dec", hAddPathDec), ("addpath.enc", hAddPathEnc), ("mpcap", hMpCap), ("read", hRead)]

end Driver
