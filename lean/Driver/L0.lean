import Driver.L0Packet
import Driver.L0Update
import Driver.L0Server
import Driver.LiveMain
/-! Line-protocol loop of the L0 differential driver. -/
namespace Driver

def handlers : List (String × Handler) := packetHandlers ++ updateHandlers ++ serverHandlers

/-- `fn a1 a2 … => result` -/
def processLine (line : String) : String :=
  match line.splitOn " => " with
  | [lhs, rhs] =>
    match lhs.splitOn " " with
    | fn :: args =>
      match handlers.lookup fn with
      | none => "ERROR unknown-fn " ++ fn
      | some h =>
        match args.mapM Term.parse, Term.parse rhs with
        | some ts, some impl =>
          -- a call that did not return at all (the harness gives up after 20 s): no model predicts that
          if rhs == "HANG" then
            "DISAGREE model=returns oracle=FAIL:C05 the call did not return within 20 s (deadlock / wedge: no API sequence or input may hang the caller) branch=" ++ fn ++ "/hang"
          else
          match h ts impl with
          | some v =>
            let ms := v.model.toStr
            (if ms == rhs then "agree" else "DISAGREE") ++ " model=" ++ ms ++
              " oracle=" ++ v.oracle.toStr ++ " branch=" ++ fn ++ "/" ++ v.branch
          | none => "ERROR bad-args"
        | _, _ => "ERROR unparseable"
    | [] => "ERROR empty"
  | _ => "ERROR no-arrow"

partial def loopL0 (hin : IO.FS.Stream) (hout : IO.FS.Stream) : IO Unit := do
  let line ← hin.getLine
  if line.isEmpty then return ()
  let t := (line.dropRightWhile (· == '\n'))
  if t.isEmpty || t.startsWith "#" then
    loopL0 hin hout
  else
    hout.putStrLn (processLine t)
    loopL0 hin hout

def main (args : List String) : IO UInt32 := do
  match args with
  | ["l0"] =>
    loopL0 (← IO.getStdin) (← IO.getStdout)
    (← IO.getStdout).flush
    return 0
  | ["live"] =>
    loopLive (← IO.getStdin) (← IO.getStdout) "" #[]
    (← IO.getStdout).flush
    return 0
  | _ =>
    IO.eprintln "usage: driver l0|live < lines"
    return 2

end Driver
