import Driver.L0Packet
import CoreBGP.Model.Server
import CoreBGP.Spec.Server
import CoreBGP.Spec.Lin
/-!
# L0/L3 driver: configuration validation, registry operation sequences, admission, back-off
-/
namespace Driver
open CoreBGP CoreBGP.Model

namespace Dec
/-- `inv` | `v4.<n>` | `v6.<n>` -/
def addr : Term → Option Addr
  | .atom "inv" => some ⟨.invalid, 0⟩
  | .atom s =>
    match s.splitOn "." with
    | ["v4", n] => n.toNat?.map fun n => ⟨.v4, n⟩
    | ["v6", n] => n.toNat?.map fun n => ⟨.v6, n⟩
    | ["m4", n] => n.toNat?.map fun n => ⟨.v6, n + 100000⟩   -- an IPv4-mapped IPv6 address is an IPv6 address
    | _ => none
  | _ => none

def int (t : Term) : Option Int :=
  match t with
  | .atom s => if s.startsWith "-" then (s.drop 1).toNat?.map fun n => -(n : Int) else s.toNat?.map fun n => (n : Int)
  | _ => none

/-- `cfg(remote,localAddr,localAS,remoteAS,holdSeconds,port,passive)` -/
def cfg : Term → Option PeerCfg
  | .app "cfg" [r, l, las, ras, hold, port, passive] => do
    pure { remote := ← addr r, localAddr := ← addr l, localAS := ← u32 las, remoteAS := ← u32 ras,
           holdNs := (← int hold) * 1000000000, port := ← int port, passive := ← Term.asBool passive }
  | _ => none
end Dec

namespace Enc
def addr (a : Addr) : Term :=
  match a.kind with
  | .invalid => .atom "inv"
  | .v4 => .atom s!"v4.{a.id}"
  | .v6 => if a.id ≥ 100000 then .atom s!"m4.{a.id - 100000}" else .atom s!"v6.{a.id}"
def cfgShort (c : PeerCfg) : Term := .app "C" [addr c.remote, Term.nat c.localAS.toNat, Term.nat c.remoteAS.toNat]
end Enc

def sortTerms (ts : List Term) : List Term :=
  (ts.toArray.qsort fun a b => a.toStr < b.toStr).toList

/-- `cfg <routerKind> cfg(…)` => `newserver-err` | `ok` | `err`: `NewServer` then `AddPeer` on the fresh server -/
def hCfg : Handler
  | [rid, c], impl => do
    let rid ← Dec.addr rid
    let c ← Dec.cfg c
    let m := if !newServerOK rid then Term.atom "newserver-err"
      else match (({} : Server).addPeer c).2 with
        | none => .atom "ok"
        | some _ => .atom "err"
    let want := if rid.kind ≠ .v4 then Term.atom "newserver-err"
      else if Spec.validConfig c then .atom "ok" else .atom "err"
    let o := if impl == want then Oracle.ok
      else if rid.kind ≠ .v4 then .fail "C20 NewServer accepts exactly IPv4 router ids"
      else if impl == Term.atom "ok" then .fail "C20 AddPeer accepted a configuration that cannot yield a valid session"
      else .fail "C20 AddPeer rejected a usable configuration"
    pure ⟨m, o, m.toStr⟩
  | _, _ => none

inductive Op where
  | add (c : PeerCfg) | del (k : Addr) | get (k : Addr) | list | serve | close

def parseOp : Term → Option Op
  | .app "add" [c] => (Dec.cfg c).map .add
  | .app "del" [k] => (Dec.addr k).map .del
  | .app "get" [k] => (Dec.addr k).map .get
  | .atom "list" => some .list
  | .atom "serve" => some .serve
  | .atom "close" => some .close
  | _ => none

def errTerm : ApiErr → Term
  | .invalidOptions | .invalidConfig => .atom "invalid"
  | .alreadyExists => .atom "exists"
  | .notExist => .atom "notexist"
  | .serverClosed => .atom "closed"

/-- model step: new state and the canonical result of the call -/
def modelStep (s : Server) : Op → Server × Term
  | .add c => let (s', e) := s.addPeer c; (s', match e with | none => .atom "ok" | some e => errTerm e)
  | .del k => let (s', e) := s.deletePeer k; (s', match e with | none => .atom "ok" | some e => errTerm e)
  | .get k => (s, match s.getPeer k with | .ok c => Enc.cfgShort c | .error e => errTerm e)
  | .list => (s, .list (sortTerms (s.listPeers.map Enc.cfgShort)))
  | .serve => let (s', e) := s.serveStart; (s', match e with | none => .atom "serving" | some e => errTerm e)
  | .close => (s.close, .atom "ok")

/-- abstract-map step (oracle): the registry component only; `serve`/`close` are judged by the
run-state rule "Serve after Close returns ErrServerClosed" -/
structure Abs where
  reg : List (Addr × PeerCfg) := []      -- association list standing for the partial map
  closed : Bool := false

def absStep (a : Abs) : Op → Abs × Term
  | .add c =>
    if ¬ Spec.validConfig c then (a, .atom "invalid")
    else if a.reg.any (·.1 = c.remote) then (a, .atom "exists")
    else ({ a with reg := a.reg ++ [(c.remote, c)] }, .atom "ok")
  | .del k => if a.reg.any (·.1 = k) then ({ a with reg := a.reg.filter (·.1 ≠ k) }, .atom "ok") else (a, .atom "notexist")
  | .get k => (a, match a.reg.find? (·.1 = k) with | some (_, c) => Enc.cfgShort c | none => .atom "notexist")
  | .list => (a, .list (sortTerms (a.reg.map fun p => Enc.cfgShort p.2)))
  | .serve => (a, if a.closed then .atom "closed" else .atom "serving")
  | .close => ({ a with closed := true }, .atom "ok")

/-- `reg [op,…]` => `[result,…]` on one server (router id valid) -/
def hReg : Handler
  | [ops], impl => do
    let ops ← (Term.asList ops).bind (·.mapM parseOp)
    let (_, mres) := ops.foldl (fun (s, acc) op => let (s', r) := modelStep s op; (s', acc ++ [r])) (({} : Server), [])
    let (_, ares) := ops.foldl (fun (a, acc) op => let (a', r) := absStep a op; (a', acc ++ [r])) (({} : Abs), [])
    let m := Term.list mres
    let o := if impl == Term.list ares then Oracle.ok
      else .fail "C20 registry operations must behave as operations on a map keyed by remote address (and Serve after Close returns ErrServerClosed)"
    pure ⟨m, o, s!"n{min ops.length 12}"⟩
  | _, _ => none

/-- one recorded call `ev(tid,inv,ret,op,result)`; results are compared as canonical strings -/
def parseLinEv : Term → Option (Spec.Lin.Ev Op String)
  | .app "ev" [tid, inv, ret, op, res] => do
    pure { tid := ← Term.asNat tid, inv := ← Term.asNat inv, ret := ← Term.asNat ret, op := ← parseOp op, res := res.toStr }
  | _ => none

/-- `reglin serving [[op,…],…]` => history `[ev(tid,inv,ret,op,result),…]` recorded from concurrent
goroutines on one real `Server`. Model side: the history must be linearizable with respect to the
sequential model (every operation holds `Server.mu`: `C20Lin.atomic_linearizable`); oracle: it must be
linearizable with respect to the abstract map. `Spec.Lin.lin` decides both (`C20Lin.lin_iff`). Also
checked: the history holds exactly the calls that were issued, per goroutine in program order. -/
def hRegLin : Handler
  | [_, ths], impl => do
    let ths ← (Term.asList ths).bind (·.mapM Term.asList)
    let evs ← (Term.asList impl).bind (·.mapM parseLinEv)
    -- well-formedness of the recording itself: per goroutine the issued operations in order, stamps increasing
    let perThread (t : Nat) := evs.filter (·.tid = t)
    let issuedOK := (List.range ths.length).all fun t =>
      ((perThread t).map fun e => e.inv) == ((perThread t).map fun e => e.inv).mergeSort (· ≤ ·) &&
      (impl.asList.getD []).filterMap (fun e => match e with
        | .app "ev" [tid, _, _, op, _] => if tid == Term.nat t then some op else none | _ => none) == ths[t]!
      && (perThread t).all fun e => e.inv < e.ret
    let total := (ths.map (·.length)).sum
    let mstep (s : Server) (op : Op) : Server × String := let (s', r) := modelStep s op; (s', r.toStr)
    let astep (a : Abs) (op : Op) : Abs × String := let (a', r) := absStep a op; (a', r.toStr)
    let okM := issuedOK && evs.length == total && Spec.Lin.lin mstep evs.length ({} : Server) evs
    let okA := issuedOK && evs.length == total && Spec.Lin.lin astep evs.length ({} : Abs) evs
    let m := if okM then impl else Term.atom "not-linearizable-wrt-model"
    let o := if okA then Oracle.ok
      else .fail "C20 concurrent registry operations must be linearizable: some total order consistent with real-time precedence in which they behave as operations on a map keyed by remote address"
    pure ⟨m, o, s!"lin/t{ths.length}/n{min total 12}"⟩
  | _, _ => none

/-- `backoff [gapSeconds,…]` => `[delaySeconds,…]` (first gap ignored) -/
def hBackoff : Handler
  | [gs], impl => do
    let gs ← (Term.asList gs).bind (·.mapM Term.asNat)
    let ds := backoff (gs.map (· * 1000000000))
    let m := Term.list (ds.map fun d => Term.nat (d / 1000000000))
    -- oracle: E.7 recurrence
    let rec spec (prev : Nat) (first : Bool) : List Nat → List Nat
      | [] => []
      | g :: rest =>
        let d := Spec.nextDelay prev (if first then none else some (g * Spec.sec))
        d :: spec d false rest
    let want := Term.list ((spec 0 true gs).map fun d => Term.nat (d / Spec.sec))
    let o := if impl == want then Oracle.ok
      else .fail "C12 hold-down is 60 s at first, doubles with each further protocol error up to 300 s, and returns to 60 s after 300 s without one"
    pure ⟨m, o, s!"n{min gs.length 6}"⟩
  | _, _ => none

/-- `errhist [ev(kind,gapSeconds),…]` => `[delaySeconds,…]` (0 = no hold-down): a history of damping errors, Ceases and
transport errors through the real `handleError`. Oracle: only NOTIFICATIONs other than Cease count — for the ladder
and for the 300 s of amnesia alike. -/
def hErrHist : Handler
  | [evs], impl => do
    let evs ← (Term.asList evs).bind (·.mapM fun t => match t with
      | .app "ev" [.atom k, g] => (Term.asNat g).map fun g =>
          ((if k == "damp" then ErrKind.damp else if k == "cease" then ErrKind.cease else ErrKind.io), g)
      | _ => none)
    let ds := errHistory (evs.map fun (k, g) => (k, g * 1000000000))
    let m := Term.list (ds.map fun d => Term.nat (d / 1000000000))
    -- oracle: E.7 recurrence over the damping events only, gaps accumulated across the others
    let rec spec (prev : Nat) (since : Option Nat) : List (ErrKind × Nat) → List Nat
      | [] => []
      | (k, g) :: rest =>
        let since' := since.map (· + g * Spec.sec)
        if k == ErrKind.damp then
          let d := Spec.nextDelay prev since'
          d :: spec d (some 0) rest
        else 0 :: spec prev since' rest
    let want := Term.list ((spec 0 none evs).map fun d => Term.nat (d / Spec.sec))
    let o := if impl == want then Oracle.ok
      else .fail "C12 only NOTIFICATIONs other than Cease (sent or received) start a hold-down, advance the back-off ladder and restart the 300 s after which it returns to 60 s; Cease and transport faults do neither"
    pure ⟨m, o, s!"n{min evs.length 6}"⟩
  | _, _ => none

/-- `herr kind code out` => `damp(seconds)` | `nodamp`: the real `handleError` on one error -/
def hHandleErr : Handler
  | [kind, code, out], impl => do
    let code ← Dec.u8 code
    let out ← Term.asBool out
    let isNotif := kind == Term.atom "notif" || kind == Term.atom "wrapped"
    let e : FsmErr := if isNotif then .notif code out else .other
    let m := if errDamps e then Term.app "damp" [Term.nat (updateStartupDelay 0 none / 1000000000)] else .atom "nodamp"
    let want := if Spec.damps (if isNotif then some code.toNat else none) then Term.app "damp" [Term.nat 60] else .atom "nodamp"
    let o := if impl == want then Oracle.ok
      else .fail "C12 exactly the NOTIFICATIONs with a code other than Cease (sent or received) start a hold-down; Cease and transport faults never do"
    pure ⟨m, o, m.toStr⟩
  | _, _ => none

/-- `admit [cfg…] src dst` => `peer(K)` | `closed`: the admission predicate (model/spec only; the
implementation side is exercised by the live engine) -/
def serverHandlers : List (String × Handler) :=
  [("cfg", hCfg), ("reg", hReg), ("reglin", hRegLin), ("backoff", hBackoff), ("errhist", hErrHist), ("herr", hHandleErr)]

end Driver
