import Std.Data.HashSet
import Driver.Live
import CoreBGP.Model.Peer
import CoreBGP.Model.Reconnect
/-!
# L2 trace inclusion (DESIGN appendix B): the per-peer projection of a live trace, with bytes replaced
by message classes, must be a trace of the peer-manager / FSM transition system `Model.next`. The set
of model states compatible with the observations so far is tracked; empty = the implementation did
something the model forbids.
-/
namespace Driver
open CoreBGP CoreBGP.Model

/-- labels whose position in the recorded trace is not reliable (they are logged by a goroutine other
than the one the model attributes the step to) are internal for the purpose of inclusion -/
def observable : Label → Bool
  | .tau | .dial | .inConn _ => false
  | _ => true

def tauClosure (ss : List PState) : List PState := Id.run do
  let mut seen : Std.HashSet PState := {}
  let mut out : Array PState := #[]
  let mut work : List PState := []
  for s in ss do
    if !seen.contains s then
      seen := seen.insert s; out := out.push s; work := s :: work
  let mut fuel := 200000
  while !work.isEmpty && fuel > 0 do
    let mut nxt : List PState := []
    for s in work do
      for (l, t) in nextB 100000 s do
        if !observable l && !seen.contains t then
          seen := seen.insert t; out := out.push t; nxt := t :: nxt
      fuel := fuel - 1
    work := nxt
  return out.toList

def stepLabel (ss : List PState) (l : Label) : List PState := Id.run do
  let cl := tauClosure ss
  let mut seen : Std.HashSet PState := {}
  let mut out : List PState := []
  for s in cl do
    for (l', t) in nextB 100000 s do
      if l' == l && !seen.contains t then
        seen := seen.insert t; out := t :: out
  return out

def enabledLabels (ss : List PState) : List String := Id.run do
  let mut out : List String := []
  for s in tauClosure ss do
    for (l, _) in nextB 100000 s do
      match l with
      | .rsend _ _ => pure ()
      | _ =>
        let r := reprStr l
        if observable l && !out.contains r then out := r :: out
  return out

def stOfString : String → Option St
  | "disabled" => some .disabled | "idle" => some .idle | "connect" => some .connect | "active" => some .active
  | "openSent" => some .openSent | "openConfirm" => some .openConfirm | "established" => some .established | _ => none

def dirOfString : String → Option Dir
  | "out" => some .out | "in" => some .inn | _ => none

/-- classes of the messages completed by each `r.send` on a connection -/
def classesOfConn (cfg : SessCfg) (c : ConnInfo) (cbs : List CbCall) : List (Nat × MsgC) := Id.run do
  -- (seq of the r.send that completed the message, class)
  let mut out : List (Nat × MsgC) := []
  let mut buf : Bytes := []
  let mut nupd := 0
  let mut dead := false
  let handlerRets := (cbs.filter (·.name == "handler")).map fun cb => cb.exitArgs.getD 0 "nil"
  let openRet := ((cbs.find? (·.name == "OnOpenMessage")).map fun cb => cb.exitArgs.getD 0 "nil").getD "nil"
  for (sq, _, b) in c.sends do
    buf := buf ++ b
    let mut go := !dead
    while go do
      if buf.length < 19 then go := false
      else
        let h := buf.take 19
        if (h.take 16).any (· != 0xFF) then
          out := out ++ [(sq, .garbage)]; dead := true; go := false
        else
          let len := Spec.n16 (h.getD 16 0) (h.getD 17 0)
          if len < 19 || len > 4096 then
            out := out ++ [(sq, .garbage)]; dead := true; go := false
          else if buf.length < len then go := false
          else
            let body := (buf.take len).drop 19
            let t := h.getD 18 0
            let cls : MsgC :=
              if t == 1 then
                match Spec.parseOpen body with
                | some o => if decide (Spec.AcceptableOpen o ⟨cfg.localID, cfg.localAS, cfg.remoteAS⟩) && openRet == "nil" then .openOk else .openBad
                | none => .garbage
              else if t == 2 then
                let r := handlerRets.getD nupd "nil"
                if r == "nil" then .upd else .updVeto
              else if t == 3 then
                (match body with
                 | c :: _ :: _ => if c == 6 then .notifCease else .notifOther
                 | _ => .eof)
              else if t == 4 then .ka
              else .garbage
            if t == 2 then nupd := nupd + 1
            out := out ++ [(sq, cls)]
            buf := buf.drop len
  return out

/-- the labels of one peer in trace order -/
def labelsOf (evs : List Ev) (peer : String) (cfg : SessCfg) (conns : List ConnInfo) (segs : List (List CbCall)) : List (Nat × List Label) := Id.run do
  -- per connection: message classes keyed by the seq of the completing r.send
  let classes := conns.map fun c => (c.id, c.isOut, classesOfConn cfg c (cbsForConn segs conns c))
  let dirOfCb (seqEnter : Nat) : List Dir :=
    match conns.find? fun c => (cbsForConn segs conns c).any (·.seqEnter == seqEnter) with
    | some c => [if c.isOut then .out else .inn]
    | none => [.out, .inn]
  let mut out : List (Nat × List Label) := []
  let mut stopSeen := false
  let mut doneSeen := false
  let mut readdCalled := false
  for e in evs do
    if doneSeen then pure ()
    else if e.peer == peer then
      match e.ev with
      | "log.t" =>
        -- (a peer that is being deleted and added again: the first FSM-start line after the re-add was called belongs
        -- to the new instance — its manager may log it before either call's return is logged; the old instance has
        -- stopped by then, since the key can only be added again after the old peer was stopped and removed)
        if stopSeen && readdCalled && e.arg 1 == "disabled" && e.arg 2 != "disabled" then
          doneSeen := true; out := out ++ [(e.seq, [.stopped])]
        else
        match dirOfString (e.arg 0), stOfString (e.arg 1), stOfString (e.arg 2) with
        | some d, some a, some b => out := out ++ [(e.seq, [.logT d a b])]
        | _, _, _ => pure ()
      | "log.err" =>
        match dirOfString (e.arg 0) with
        | some d => out := out ++ [(e.seq, [.logErr d])]
        | none => pure ()
      | "log.damp" => out := out ++ [(e.seq, [.logDamp])]
      | "log.undamp" => out := out ++ [(e.seq, [.logUndamp])]
      | "cb.enter" =>
        let ds := dirOfCb e.seq
        if e.arg 0 == "OnEstablished" then out := out ++ [(e.seq, ds.map .onEstablished)]
        else if e.arg 0 == "handler" then out := out ++ [(e.seq, ds.map .handler)]
        else if e.arg 0 == "OnClose" then out := out ++ [(e.seq, ds.map .onClose)]
      | "r.send" =>
        for (cid, isOut, cls) in classes do
          -- (a write on a connection that has already ended is not a stimulus for the peer any more)
          let stale := match conns.find? (·.id == cid) with
            | some c => (c.endSeq.map (fun q => decide (q < e.seq))).getD false
            | none => false
          if cid == e.arg 0 && !stale then
            for (sq, m) in cls do
              if sq == e.seq then out := out ++ [(e.seq, [.rsend (if isOut then .out else .inn) m])]
      | "r.close" | "r.reset" =>
        match conns.find? (·.id == e.arg 0) with
        | some c => out := out ++ [(e.seq, [.rsend (if c.isOut then .out else .inn) .eof])]
        | none => pure ()
      | "api.call" =>
        if e.arg 0 == "DeletePeer" && !stopSeen then
          stopSeen := true; out := out ++ [(e.seq, [.apiStop])]
        if e.arg 0 == "AddPeer2" then readdCalled := true
      | "api.ret" =>
        -- (only the call that did stop the peer; what follows belongs to a new peer instance, if re-added)
        if e.arg 0 == "DeletePeer" && e.arg 1 == "ok" && !doneSeen then
          doneSeen := true; out := out ++ [(e.seq, [.stopped])]
        if (e.arg 0 == "AddPeer2" || e.arg 0 == "AddPeerN") && e.arg 1 == "ok" && stopSeen && !doneSeen then
          doneSeen := true; out := out ++ [(e.seq, [.stopped])]
      | _ => pure ()
    else if e.peer == "-" then
      if e.ev == "api.call" && (e.arg 0 == "Close" || e.arg 0 == "ListenerClose") && !stopSeen then
        stopSeen := true; out := out ++ [(e.seq, [.apiStop])]
      -- `stopped` of this peer happens somewhere before Close returns: its position is not observable
  return out

/-- follow the labels through the model; returns a failure description if the state set becomes empty -/
def includeL2 (dominant passive : Bool) (labels : List (Nat × List Label)) : Option String × Nat := Id.run do
  let mut ss : List PState := [pInit dominant passive]
  let mut maxSet := 1
  for (sq, alts) in labels do
    -- `stopped` is internal when it was not observed
    let ss' := alts.flatMap fun l => stepLabel ss l
    let ss'' := ss'.eraseDups
    if ss''.isEmpty then
      return (some s!"L2 at event #{sq} the model cannot do {reprStr alts |>.take 120}; enabled were: {(enabledLabels ss).take 12}", maxSet)
    ss := ss''
    maxSet := max maxSet ss.length
  return (none, maxSet)


/-! ### timed inclusion of the outbound FSM's Idle / Connect / Active phase in `Model.rstep`

The manager logs every approved transition of the out-FSM with a timestamp; replaying them through the
timed model (time advancing by the observed differences) must never hit a transition that is not enabled
— in particular an exit from Idle before the idle-hold deadline, or a retry from Active before the
connect-retry deadline. The log lags the action by scheduling noise, so a deadline may be missed by a
small tolerance. The connect-retry expiry inside `connect()` is not logged (no transition): it is taken
whenever it is due. -/
def reconnectInclusion (evs : List Ev) (peer : String) : List String := Id.run do
  match evs.find? fun e => e.peer == peer && e.ev == "cfg" with
  | none => return []
  | some c =>
    let ih := (c.arg 4).toNat?.getD 0 * 1000000
    let cr := (c.arg 5).toNat?.getD 0 * 1000000
    let eps := min 20000000 (ih / 4)
    let mut fails : List String := []
    let mut st : Option RSess := none
    for e in evs do
      if e.peer == peer && e.ev == "log.t" && e.arg 0 == "out" then
        let frm := e.arg 1
        let to := e.arg 2
        if frm == "disabled" && to == "idle" then
          st := some (rInit ih cr e.t)                      -- a new FSM instance
        else if to == "disabled" then st := none
        else
          match st with
          | none => pure ()
          | some s =>
            -- the manager's log line lags the action by scheduling noise; an exit from Idle is timed exactly by the
            -- dialler's own `dial` event, emitted when the socket of that attempt is created
            let tObs : Nat :=
              if frm == "idle" && to == "connect" then
                -- (the dial event nearest in time: it may be recorded just before or just after the line)
                let ds := (evs.filter fun d => d.peer == peer && d.ev == "dial").map (·.t)
                let near := ds.foldl (fun (best : Option Nat) t =>
                  let dist (x : Nat) := if x ≤ e.t then e.t - x else x - e.t
                  match best with | some b => if dist t < dist b then some t else some b | none => some t) none
                match near with
                -- (only a dial close enough to be the one of THIS exit: well within one idle-hold time of the line)
                | some t => if (if t ≤ e.t then e.t - t else t - e.t) < min 50000000 (ih / 2) then min t e.t else e.t
                | none => e.t
              else e.t
            -- advance time to the observation (plus the tolerance), taking silent connect-retry redials that are due
            let s1 : RSess := { s with now := max s.now (tObs + eps) }
            let s2 := if s1.st == .connect && due s1.crDl s1.now then (rstep s1 .crFireRedial).getD s1 else s1
            let ev : Option REv :=
              if frm == "idle" && to == "connect" then some .idleFire
              else if frm == "connect" && to == "idle" then some .dialFailed
              else if frm == "connect" && to == "openSent" then some .dialOK
              else if frm == "active" && to == "connect" then some .crFireActive
              else if frm == "openSent" && to == "active" then some .lostToActive
              else if to == "idle" then some .lostToIdle
              else none
            match ev with
            | none => pure ()
            | some ev =>
              match rstep s2 ev with
              | some _ =>
                -- enabled within the tolerance: take the step at the observed time (so that the deadlines it arms
                -- are not inflated by the tolerance)
                let s3 : RSess := { s2 with now := tObs,
                                            idleDl := if ev == .idleFire then s2.idleDl.map (min · tObs) else s2.idleDl,
                                            crDl := if ev == .crFireActive || ev == .crFireRedial then s2.crDl.map (min · tObs) else s2.crDl }
                st := (rstep s3 ev)
              | none =>
                fails := fails ++ [s!"C11 timed model: out-FSM transition {frm} => {to} at {e.t / 1000000} ms (observed at {tObs / 1000000} ms) is not enabled (idle-hold deadline {s2.idleDl.getD 0 / 1000000} ms, connect-retry deadline {s2.crDl.getD 0 / 1000000} ms)"]
                st := none
    return fails

end Driver
