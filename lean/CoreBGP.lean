import CoreBGP.Model.Go
import CoreBGP.Types
import CoreBGP.Model.Packet
import CoreBGP.Model.Reader
import CoreBGP.Spec.Wire
import CoreBGP.Props.C15
import CoreBGP.Model.Update
import CoreBGP.Spec.Update
