import Driver.L0
def main (args : List String) : IO UInt32 := Driver.main args
